/-
  Specification side for C04 (zone-aware date-times).

  A zone-aware value `⟨utc, off⟩` denotes the instant of its UTC reading (`Spec.instSecs utc` whole
  seconds since the epoch, plus the nanosecond field); its wall clock is the reading of
  `instSecs utc + off` on the same proleptic calendar.  Because |off| < 1 day, wall clocks of values
  at the ends of the supported range can fall up to one day outside it: the *extended* calendar
  admits the years `MIN_YEAR − 1` and `MAX_YEAR + 1` as well (`ExtDateInv`).  Nothing here looks at
  chrono's carry/`pred_opt`/`succ_opt` structure: everything is stated through day numbers.
-/
import Chrono.Model.ZonedOps
import Chrono.Spec.InstantSpec
namespace Chrono.Spec
open Chrono.M Chrono.Extracted

/-- a packed date of the calendar extended by one year at each end: ordinal exists in its year and
the flags (leap bit, weekday of the year start) are those of the year -/
def ExtDateInv (d : Date) : Prop :=
  MIN_YEAR - 1 ≤ d.year ∧ d.year ≤ MAX_YEAR + 1 ∧ 1 ≤ d.ordinal ∧ d.ordinal ≤ yearLen d.year ∧
  d.yof % 16 = flagsOf d.year
instance (d : Date) : Decidable (ExtDateInv d) := by unfold ExtDateInv; exact inferInstance

def ExtNDTInv (dt : NaiveDT) : Prop := ExtDateInv dt.date ∧ TValid dt.time
instance (dt : NaiveDT) : Decidable (ExtNDTInv dt) := by unfold ExtNDTInv; exact inferInstance

/-- offsets a `FixedOffset` can hold -/
def OffValid (off : Int) : Prop := -86400 < off ∧ off < 86400
instance (off : Int) : Decidable (OffValid off) := by unfold OffValid; exact inferInstance

/-- a well-formed zone-aware value -/
def ZInv (z : Zoned) : Prop := NDTInv z.utc ∧ OffValid z.off
instance (z : Zoned) : Decidable (ZInv z) := by unfold ZInv; exact inferInstance

/-- the wall clock of a zone-aware value, in whole seconds since 1970-01-01T00:00:00 local -/
def wallSecs (z : Zoned) : Int := instSecs z.utc + z.off

/-- first and last day number of the supported range -/
def DAY_MIN : Int := dayNumYo MIN_YEAR 1
def DAY_MAX : Int := dayNumYo MAX_YEAR 365
/-- first and last second of the supported range -/
def SECS_MIN : Int := (DAY_MIN - EPOCH_DAY) * 86400
def SECS_MAX : Int := (DAY_MAX - EPOCH_DAY) * 86400 + 86399

/-- a reading (whole seconds since the epoch) whose date lies in `[NaiveDate::MIN, NaiveDate::MAX]` -/
def InRangeSecs (s : Int) : Prop := SECS_MIN ≤ s ∧ s ≤ SECS_MAX

instance (s : Int) : Decidable (InRangeSecs s) := by unfold InRangeSecs; exact inferInstance

/-- `MIN_UTC ≤ · ≤ MAX_UTC` in the derived order of `NaiveDateTime`: the date is in range and the
value is not a leap-second representation in the very last second -/
def InUtcRange (s frac : Int) : Prop := InRangeSecs s ∧ ¬ (s = SECS_MAX ∧ frac ≥ 1000000000)

instance (s f : Int) : Decidable (InUtcRange s f) := by unfold InUtcRange; exact inferInstance

/-- lexicographic three-way comparison of `(whole seconds, nanosecond field)` -/
def cmpKey (s1 f1 s2 f2 : Int) : Int :=
  if s1 < s2 then -1 else if s1 > s2 then 1 else if f1 < f2 then -1 else if f1 > f2 then 1 else 0


/-- the two halves of `InUtcRange`: `MIN_UTC ≤ ·` and `· ≤ MAX_UTC` in the derived order -/
def GeMinUtc (s : Int) : Prop := SECS_MIN ≤ s
def LeMaxUtc (s frac : Int) : Prop := s < SECS_MAX ∨ (s = SECS_MAX ∧ frac < 1000000000)
instance (s : Int) : Decidable (GeMinUtc s) := by unfold GeMinUtc; exact inferInstance
instance (s f : Int) : Decidable (LeMaxUtc s f) := by unfold LeMaxUtc; exact inferInstance

/-- "`r` is the zone-aware value whose wall clock is the reading `r0`, at `z`'s offset, kept only if
its instant passes `ok`": a result has `z`'s offset, is well formed, its wall clock IS `r0`, it
denotes `r0 − offset` and passes `ok`; there is no result exactly when there is no reading or the
instant `r0 − offset` fails `ok`.  (`ok = InUtcRange`: the filter of `map_local` / `with_time`;
`ok = InRangeSecs`: no filter beyond representability, as in month stepping.) -/
def ActsOnWallWith (ok : Int → Int → Prop) (z : Zoned) (r0 : Option NaiveDT) (r : Option Zoned) : Prop :=
  (∀ z', r = some z' → ∃ nl, r0 = some nl ∧ z'.off = z.off ∧ ZInv z' ∧
    Zoned.overflowing_naive_local z' = .ok nl ∧ instSecs z'.utc = instSecs nl - z.off ∧
    z'.utc.time.frac = nl.time.frac ∧ ok (instSecs z'.utc) z'.utc.time.frac) ∧
  (r = none ↔ (r0 = none ∨ ∃ nl, r0 = some nl ∧ ¬ ok (instSecs nl - z.off) nl.time.frac))

def ActsOnWall (z : Zoned) (r0 : Option NaiveDT) (r : Option Zoned) : Prop :=
  ActsOnWallWith InUtcRange z r0 r

/-- the reading with calendar date (y, m, d) — any year — and time of day `t`, if that date exists -/
def ymdReading? (y : Int) (m d : Nat) (t : Time) : Option NaiveDT :=
  if validYmd y m d = true then some ⟨dateOfYo y (ordinalOf y m d), t⟩ else none
/-- the reading on the `o`-th day of year `y`, if that day exists -/
def yoReading? (y : Int) (o : Nat) (t : Time) : Option NaiveDT :=
  if 1 ≤ o ∧ o ≤ yearLen y then some ⟨dateOfYo y o, t⟩ else none

/-- the reading `with_year(y')` aims at: the wall clock itself when the year is unchanged (also a
headroom year), otherwise the same month and day in year `y'` of the supported range -/
def yearReading? (l : NaiveDT) (y' : Int) : Option NaiveDT :=
  if y' = l.date.year then some l
  else if MIN_YEAR ≤ y' ∧ y' ≤ MAX_YEAR then
    ymdReading? y' (monthOfYo l.date.year l.date.ordinal.toNat) (dayOfYo l.date.year l.date.ordinal.toNat) l.time
  else none

/-- `z'` is `z` with its wall clock `l` moved by `k` whole days: same offset and time of day, the
wall-clock date `k` days away, the instant `k·86400` s away -/
def SteppedDays (z : Zoned) (l : NaiveDT) (z' : Zoned) (k : Int) : Prop :=
  z'.off = z.off ∧ ZInv z' ∧ instSecs z'.utc = instSecs z.utc + k * 86400 ∧
  z'.utc.time.frac = z.utc.time.frac ∧
  ∃ nl, Zoned.overflowing_naive_local z' = .ok nl ∧ nl.time = l.time ∧
    dayNumOf nl.date = dayNumOf l.date + k

end Chrono.Spec
