/-
  Statement-level predicates of C14 that are about the RESOLVED values (not about the resolver's branch
  structure), collected on the Spec side: the theorems of Props/C14.lean are stated with them.
  (They used to be defined next to the helper lemmas under Proofs/; the Proofs files now re-export them,
  so every importer keeps working.)

  * `VD y o`            — the `o`-th day of year `y` exists and `y` is in the supported range
  * `UsesCalendar p`    — a calendar (non-ISO) combination of date fields is present
  * `UsesIso p`         — the ISO-week combination is present
  * `NaiveOk p dt off`  — what the naive date-time resolver guarantees about a result
  * `IsoIsSpec p y o`   — the three ISO-week fields agree with the ISO 8601 week date of the day, read
                          off the CALENDAR specification (`isoYear`, `isoWeek` of Spec/StrftimeSpec.lean),
                          not through the model's `iso_week` accessor; `DateAgreesSpec` is `DateAgrees`
                          with that clause.
-/
import Chrono.Spec.ParsedSpec
import Chrono.Spec.StrftimeSpec
namespace Chrono.Spec.Fields
open Chrono.M Chrono.Extracted Chrono.Spec Chrono.Spec.Strftime

/-- an existing day of a year of the supported range -/
def VD (y : Int) (o : Nat) : Prop := MIN_YEAR ≤ y ∧ y ≤ MAX_YEAR ∧ 1 ≤ o ∧ o ≤ yearLen y

/-- a calendar (non-ISO) combination is present: year group with a year, plus month and day, or
ordinal, or a Sunday- or Monday-based week number with a weekday -/
def UsesCalendar (p : Parsed) : Prop :=
  GroupHasYear p.year p.year_mod_100 ∧
    ((p.month ≠ none ∧ p.day ≠ none) ∨ p.ordinal ≠ none ∨
     (p.week_from_sun ≠ none ∧ p.weekday ≠ none) ∨ (p.week_from_mon ≠ none ∧ p.weekday ≠ none))

/-- the ISO combination is present: ISO year group with a year, ISO week and weekday -/
def UsesIso (p : Parsed) : Prop :=
  GroupHasYear p.isoyear p.isoyear_mod_100 ∧ p.isoweek ≠ none ∧ p.weekday ≠ none

/-- what the resolvers guarantee about a naive result -/
def NaiveOk (p : Parsed) (dt : NaiveDT) (off : Int) : Prop :=
  ∃ Y o, VD Y o ∧ dt.date = dateOfYo Y o ∧ DateAgrees p Y o ∧
    TStrict dt.time ∧ TimeAgreesSupplied p dt.time ∧ timestampIs p.timestamp dt off

/-- the ISO-week fields agree with the ISO 8601 week date of the `o`-th day of year `y`, read off the
calendar: ISO year = the calendar year of the Thursday of the day's Monday-based week, ISO week = that
Thursday's ordinal in whole weeks, counted from 1 -/
def IsoIsSpec (p : Parsed) (y : Int) (o : Nat) : Prop :=
  optIs p.isoyear (isoYear y o) ∧ centIs p.isoyear_div_100 p.isoyear_mod_100 (isoYear y o) ∧
    optIs p.isoweek (isoWeek y o)

/-- `DateAgrees` with the ISO-week clause read off the calendar specification -/
def DateAgreesSpec (p : Parsed) (y : Int) (o : Nat) : Prop :=
  optIs p.year y ∧ centIs p.year_div_100 p.year_mod_100 y ∧
  optIs p.quarter (quarterOfMonth (monthOfYo y o)) ∧ optIs p.month (monthOfYo y o) ∧
  optIs p.week_from_sun (weekNo y o 6) ∧ optIs p.week_from_mon (weekNo y o 0) ∧
  (∀ w, p.weekday = some w → (w.toNat : Int) = weekdayOf (dayNumYo y o)) ∧
  optIs p.ordinal o ∧ optIs p.day (dayOfYo y o) ∧ IsoIsSpec p y o

end Chrono.Spec.Fields
