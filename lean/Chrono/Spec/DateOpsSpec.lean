/-
  Specification for C08: what "add N months", "replace one field", "the week containing a date",
  "the n-th weekday of a month" and "whole years elapsed" mean, in terms of the independent calendar
  of Spec/Calendar.lean only (leap rule, month lengths, closed-form day number, weekday of a day
  number).  No reference to chrono's tables or packed words except `dateOfYo`, the name of the value.
-/
import Chrono.Spec.Calendar
import Chrono.Spec.DateSpec
namespace Chrono.Spec
open Chrono.M Chrono.Extracted

/-- the date (y, m, d), if it exists and its year is in the supported range -/
def ymdDate? (y : Int) (m d : Nat) : Option Date :=
  if MIN_YEAR ≤ y ∧ y ≤ MAX_YEAR ∧ validYmd y m d = true then some (dateOfYo y (ordinalOf y m d)) else none

/-- the o-th day of year y, if it exists and the year is in the supported range -/
def yoDate? (y : Int) (o : Nat) : Option Date :=
  if MIN_YEAR ≤ y ∧ y ≤ MAX_YEAR ∧ 1 ≤ o ∧ o ≤ yearLen y then some (dateOfYo y o) else none

/-- the date with a given day number, if it is in the supported range -/
def IsDateOfDayNum (r : Option Date) (n : Int) : Prop :=
  (r = none ↔ (n < dayNumYo MIN_YEAR 1 ∨ n > dayNumYo MAX_YEAR 365)) ∧
  ∀ d, r = some d → ∃ y o, d = dateOfYo y o ∧ MIN_YEAR ≤ y ∧ y ≤ MAX_YEAR ∧ 1 ≤ o ∧ o ≤ yearLen y ∧
    dayNumYo y o = n

/-! ### month stepping -/
/-- months counted from January of year 0 -/
def monthIndex (y : Int) (m : Nat) : Int := y * 12 + (m : Int) - 1
/-- year and month `n` months after (before, for negative `n`) month `m` of year `y`:
the month index moves by exactly `n` and is split Euclideanly -/
def stepYear (y : Int) (m : Nat) (n : Int) : Int := (monthIndex y m + n) / 12
def stepMonth (y : Int) (m : Nat) (n : Int) : Nat := ((monthIndex y m + n) % 12).toNat + 1
/-- the day of month is kept, clamped to the last day of the target month -/
def stepDay (y : Int) (m d : Nat) (n : Int) : Nat := min d (monthLen (stepYear y m n) (stepMonth y m n))
def addMonths? (y : Int) (m d : Nat) (n : Int) : Option Date :=
  ymdDate? (stepYear y m n) (stepMonth y m n) (stepDay y m d n)

/-! ### weeks -/
/-- number of days from a day with weekday `wd` back to the most recent day with weekday `s`
(both Monday = 0), in 0..6 -/
def daysBack (wd s : Int) : Int := (wd - s) % 7

/-- a week is the pair (first day, last day) when both exist -/
def bothDays (first last : Option Date) : Option (Date × Date) :=
  match first, last with
  | some a, some b => some (a, b)
  | _, _ => none

/-! ### n-th weekday of a month -/
/-- day of month of the n-th (n ≥ 1) weekday `w` (Monday = 0) of month m of year y -/
def nthWeekdayDay (y : Int) (m : Nat) (w : Int) (n : Nat) : Nat :=
  7 * (n - 1) + ((w - weekdayOf (dayNum y m 1)) % 7).toNat + 1

/-! ### whole years elapsed -/
/-- lexicographic order on (year, month, day) -/
def ymdLt (y1 : Int) (m1 d1 : Nat) (y2 : Int) (m2 d2 : Nat) : Prop :=
  y1 < y2 ∨ (y1 = y2 ∧ (m1 < m2 ∨ (m1 = m2 ∧ d1 < d2)))
def ymdLe (y1 : Int) (m1 d1 : Nat) (y2 : Int) (m2 d2 : Nat) : Prop := ¬ ymdLt y2 m2 d2 y1 m1 d1

/-- `k` whole years have elapsed from (y0, m0, d0) to (y1, m1, d1): the k-th anniversary is not
after the later date, the (k+1)-th is -/
def WholeYears (y0 : Int) (m0 d0 : Nat) (y1 : Int) (m1 d1 : Nat) (k : Int) : Prop :=
  0 ≤ k ∧ ymdLe (y0 + k) m0 d0 y1 m1 d1 ∧ ymdLt y1 m1 d1 (y0 + k + 1) m0 d0

end Chrono.Spec
