/-
  Specification-level view of date-times as instants: a non-leap UTC date-time denotes an integer
  number of nanoseconds since 1970-01-01T00:00:00Z (shared by C02, C03, C04, C17, C20).
-/
import Chrono.Model.DateTime
import Chrono.Spec.DateSpec
import Chrono.Spec.TimeSpec
namespace Chrono.Spec
open Chrono.M

/-- day number of 1970-01-01 (0001-01-01 = day 1) -/
def EPOCH_DAY : Int := 719163

/-- whole seconds since the epoch of a date-time read as UTC (leap second = its :59 second) -/
def instSecs (dt : NaiveDT) : Int := (dayNumOf dt.date - EPOCH_DAY) * 86400 + dt.time.secs

/-- nanoseconds since the epoch; for a leap-second representation (`frac ≥ 10⁹`) this is the
position on the line that contains that one leap second -/
def instNs (dt : NaiveDT) : Int := instSecs dt * 1000000000 + dt.time.frac

/-- representation invariant of `NaiveDateTime` -/
def NDTInv (dt : NaiveDT) : Prop := DateInv dt.date ∧ TValid dt.time

/-- not a leap-second representation -/
def NonLeap (dt : NaiveDT) : Prop := dt.time.frac < 1000000000

instance (dt : NaiveDT) : Decidable (NDTInv dt) := by unfold NDTInv; exact inferInstance
instance (dt : NaiveDT) : Decidable (NonLeap dt) := by unfold NonLeap; exact inferInstance

/-- the instants of `NaiveDateTime::MIN` and `MAX` -/
def NS_MIN : Int := instNs NaiveDT.MIN
def NS_MAX_DT : Int := instNs NaiveDT.MAX

/-- a zone-aware value denotes the instant of its UTC reading; its wall clock is that plus the offset -/
def zonedInstNs (z : Zoned) : Int := instNs z.utc
def wallNs (z : Zoned) : Int := instNs z.utc + z.off * 1000000000

end Chrono.Spec
