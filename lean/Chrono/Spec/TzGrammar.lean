/-
  Specification side of C16, part 3: WHAT A POSIX TZ STRING DENOTES.

  A grammar-level, reader-independent definition: inductive relations between byte strings and
  the values they stand for, following the POSIX description of the `TZ` variable
  (`std offset [dst [offset] , start[/time] , end[/time]]`) with the restrictions and liberties
  chrono documents: designations of 3 to 7 characters (alphabetic when bare, `[0-9A-Za-z+-]` inside
  `<…>`), decimal fields with any number of leading zeros, an optional `+`/`-` in front of offsets
  (and, with the RFC 8536 extensions of TZif version 3, in front of rule times, whose hours then
  range to 167), a defaulted DST offset of one hour ahead of standard time and a defaulted rule
  time of 02:00:00.  Nothing here mentions `Cursor`, `read_*` or any other part of the reader's
  model; only the data types of the result (`Rule`, `Ltt`, `RuleDay`, Model/TzData.lean) are shared.

  Sign convention: the TZ string gives the offset WEST of Greenwich (`EST5` = UTC−5), a
  `LocalTimeType` holds the offset EAST (`ut_offset = −18000`), hence the negations in `Denotes`.
-/
import Chrono.Model.TzData
namespace Chrono.Spec.Tz
open Chrono Chrono.M.Tz

namespace Gr

/-- ASCII `0`…`9` -/
def Digit (b : Nat) : Prop := 48 ≤ b ∧ b ≤ 57
/-- ASCII letters -/
def Alpha (b : Nat) : Prop := (65 ≤ b ∧ b ≤ 90) ∨ (97 ≤ b ∧ b ≤ 122)
/-- what may stand between `<` and `>`: letters, digits, `+`, `-` -/
def NameCh (b : Nat) : Prop := Digit b ∨ Alpha b ∨ b = 43 ∨ b = 45
instance (b : Nat) : Decidable (Digit b) := by unfold Digit; infer_instance
instance (b : Nat) : Decidable (Alpha b) := by unfold Alpha; infer_instance
instance (b : Nat) : Decidable (NameCh b) := by unfold NameCh; infer_instance

/-- `Num s n`: `s` is a non-empty string of decimal digits (leading zeros allowed) with value `n` -/
inductive Num : List Nat → Nat → Prop
  | one (d : Nat) (h : d < 10) : Num [48 + d] d
  | snoc {s : List Nat} {n : Nat} (d : Nat) (h : d < 10) (p : Num s n) : Num (s ++ [48 + d]) (10 * n + d)

/-- `hh[:mm[:ss]]` with its three fields (absent ones are 0) -/
inductive Hms : List Nat → Nat → Nat → Nat → Prop
  | h {a : List Nat} {h : Nat} (ph : Num a h) : Hms a h 0 0
  | hm {a b : List Nat} {h m : Nat} (ph : Num a h) (pm : Num b m) : Hms (a ++ 58 :: b) h m 0
  | hms {a b c : List Nat} {h m s : Nat} (ph : Num a h) (pm : Num b m) (ps : Num c s) :
      Hms (a ++ 58 :: (b ++ 58 :: c)) h m s

/-- optional sign: nothing or `+` is +1, `-` is −1 -/
inductive Sign : List Nat → Int → Prop
  | none : Sign [] 1
  | plus : Sign [43] 1
  | minus : Sign [45] (-1)

/-- seconds of `h:m:s` -/
def secs (h m s : Nat) : Int := ((h * 3600 + m * 60 + s : Nat) : Int)

/-- `[+|-]hh[:mm[:ss]]`, hours 0…24, minutes and seconds 0…59: the offset in seconds (as written,
i.e. positive west of Greenwich) -/
inductive Offset : List Nat → Int → Prop
  | mk {ss sb : List Nat} {sg : Int} {h m s : Nat} (psg : Sign ss sg) (pb : Hms sb h m s)
      (hh : h ≤ 24) (hm : m ≤ 59) (hs : s ≤ 59) : Offset (ss ++ sb) (sg * secs h m s)

/-- the `time` of a rule day: plain POSIX `hh[:mm[:ss]]` with hours 0…24 (`ext = false`), or with the
RFC 8536 extensions (`ext = true`, TZif version 3) `[+|-]hh[:mm[:ss]]` with hours 0…167 -/
inductive Time : Bool → List Nat → Int → Prop
  | posix {sb : List Nat} {h m s : Nat} (pb : Hms sb h m s) (hh : h ≤ 24) (hm : m ≤ 59) (hs : s ≤ 59) :
      Time false sb (secs h m s)
  | ext {ss sb : List Nat} {sg : Int} {h m s : Nat} (psg : Sign ss sg) (pb : Hms sb h m s)
      (hh : h ≤ 167) (hm : m ≤ 59) (hs : s ≤ 59) : Time true (ss ++ sb) (sg * secs h m s)

/-- a designation: 3…7 letters written bare, or 3…7 characters of `[0-9A-Za-z+-]` in angle brackets
(an all-letter designation may be written either way) -/
inductive Name : List Nat → List Nat → Prop
  | bare {n : List Nat} (h3 : 3 ≤ n.length) (h7 : n.length ≤ 7) (ha : ∀ b ∈ n, Alpha b) : Name n n
  | quoted {n : List Nat} (h3 : 3 ≤ n.length) (h7 : n.length ≤ 7) (ha : ∀ b ∈ n, NameCh b) :
      Name (60 :: (n ++ [62])) n

/-- `Jn` (1…365, 29 February never counted), `n` (0…365, 29 February counted), `Mm.w.d`
(month 1…12, week 1…5 where 5 is the last, weekday 0…6 from Sunday) -/
inductive Day : List Nat → RuleDay → Prop
  | j1 {s : List Nat} {n : Nat} (p : Num s n) (h1 : 1 ≤ n) (h2 : n ≤ 365) : Day (74 :: s) (.julian1 n)
  | j0 {s : List Nat} {n : Nat} (p : Num s n) (h2 : n ≤ 365) : Day s (.julian0 n)
  | mwd {a b c : List Nat} {m w d : Nat} (pm : Num a m) (pw : Num b w) (pd : Num c d)
      (m1 : 1 ≤ m) (m2 : m ≤ 12) (w1 : 1 ≤ w) (w2 : w ≤ 5) (d2 : d ≤ 6) :
      Day (77 :: (a ++ 46 :: (b ++ 46 :: c))) (.mwd m w d)

/-- `date[/time]`; the time defaults to 02:00:00 -/
inductive DayTime (ext : Bool) : List Nat → RuleDay → Int → Prop
  | default {s : List Nat} {d : RuleDay} (pd : Day s d) : DayTime ext s d 7200
  | timed {s st : List Nat} {d : RuleDay} {t : Int} (pd : Day s d) (pt : Time ext st t) :
      DayTime ext (s ++ 47 :: st) d t

/-- the optional DST offset: when omitted, one hour ahead of standard time (`std − 3600` in the
west-positive convention of the text) -/
inductive DstOffset (std : Int) : List Nat → Int → Prop
  | default : DstOffset std [] (std - 3600)
  | given {s : List Nat} {o : Int} (p : Offset s o) : DstOffset std s o

end Gr

/-- the offsets a zone may state: STRICTLY within 24 hours of UTC.  The POSIX field ranges
(`hh = 0…24`, `mm`, `ss = 0…59`, category `Offset`) spell offsets up to `24:59:59`, and a defaulted DST
offset can lie one hour beyond; the texts whose stated (or defaulted) offset is `24:00:00` or more in
magnitude are syntactically well-formed but denote no rule: `Local` hands offsets out as
`FixedOffset`, which is strictly within 24 h (repair of finding F32, `LocalTimeType::new`). -/
def Within24h (o : Int) : Prop := -86400 < o ∧ o < 86400
instance (o : Int) : Decidable (Within24h o) := by unfold Within24h; infer_instance

open Gr in
/-- `Denotes ext s r`: the byte string `s` is a POSIX TZ string (RFC 8536 extensions allowed iff `ext`)
whose offsets are within 24 h of UTC (`Within24h`), and `r` is the rule it stands for -/
inductive Denotes (ext : Bool) : List Nat → Rule → Prop
  /-- `std offset` -/
  | fixed {s1 s2 n : List Nat} {o : Int} (pn : Name s1 n) (po : Offset s2 o) (ho : Within24h o) :
      Denotes ext (s1 ++ s2) (.fixed ⟨-o, false, some n⟩)
  /-- `std offset dst [offset] , start[/time] , end[/time]` -/
  | alt {s1 s2 s3 s4 s5 s6 n1 n2 : List Nat} {o1 o2 t1 t2 : Int} {d1 d2 : RuleDay}
      (pn1 : Name s1 n1) (po1 : Offset s2 o1) (pn2 : Name s3 n2) (po2 : DstOffset o1 s4 o2)
      (pd1 : DayTime ext s5 d1 t1) (pd2 : DayTime ext s6 d2 t2)
      (ho1 : Within24h o1) (ho2 : Within24h o2) :
      Denotes ext (s1 ++ (s2 ++ (s3 ++ (s4 ++ 44 :: (s5 ++ 44 :: s6)))))
        (.alt ⟨⟨-o1, false, some n1⟩, ⟨-o2, true, some n2⟩, d1, t1, d2, t2⟩)

end Chrono.Spec.Tz
