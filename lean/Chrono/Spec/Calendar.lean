/-
  Specification: the proleptic Gregorian calendar, written without reference to chrono's tables.
  Day numbers: 0001-01-01 is day 1 (so day 0 is 0000-12-31; year 0 = 1 BCE is a leap year).
-/
namespace Chrono.Spec

/-- leap years: every 4th year except centuries not divisible by 400 (all integers) -/
def isLeap (y : Int) : Bool := y % 4 == 0 && (y % 100 != 0 || y % 400 == 0)

def monthLen (y : Int) (m : Nat) : Nat :=
  match m with
  | 1 => 31 | 2 => if isLeap y then 29 else 28 | 3 => 31 | 4 => 30 | 5 => 31 | 6 => 30
  | 7 => 31 | 8 => 31 | 9 => 30 | 10 => 31 | 11 => 30 | 12 => 31 | _ => 0

def validYmd (y : Int) (m d : Nat) : Bool := decide (1 ≤ m) && decide (m ≤ 12) && decide (1 ≤ d) && decide (d ≤ monthLen y m)

def yearLen (y : Int) : Nat := if isLeap y then 366 else 365

/-- days before the first day of month `m` in a common year -/
def cumDays (m : Nat) : Nat :=
  match m with
  | 1 => 0 | 2 => 31 | 3 => 59 | 4 => 90 | 5 => 120 | 6 => 151 | 7 => 181 | 8 => 212
  | 9 => 243 | 10 => 273 | 11 => 304 | 12 => 334 | _ => 0

/-- ordinal (day of year, 1-based) of a calendar date -/
def ordinalOf (y : Int) (m d : Nat) : Nat := cumDays m + (if m > 2 ∧ isLeap y then 1 else 0) + d

/-- number of days before January 1 of year `y`, counted from 0001-01-01 = day 1 -/
def daysBeforeYear (y : Int) : Int := 365 * (y - 1) + (y - 1) / 4 - (y - 1) / 100 + (y - 1) / 400

def dayNumYo (y : Int) (ordinal : Int) : Int := daysBeforeYear y + ordinal
def dayNum (y : Int) (m d : Nat) : Int := dayNumYo y (ordinalOf y m d)

/-- weekday of a day number, 0 = Monday (0001-01-01, day 1, is a Monday) -/
def weekdayOf (n : Int) : Int := (n + 6) % 7

/-- number of leap years in `[0, i)` within a 400-year cycle starting at a multiple of 400 -/
def leapsBefore (i : Nat) : Nat := (i + 3) / 4 - (i + 99) / 100 + (i + 399) / 400

/-- year flags as the documentation describes them: bit 3 = common year, low bits = weekday
(Mon = 0) of December 31 of the previous year with 0 written as 7 -/
def flagsOf (y : Int) : Nat :=
  let w := (weekdayOf (daysBeforeYear y)).toNat
  (if isLeap y then 0 else 8) + (if w = 0 then 7 else w)

/-- the month-day-leap index `mdl = m·64 + d·2 + common` and the ordinal-leap index `ol = o·2 + common` -/
def mdlDelta (mdl : Nat) : Nat :=
  let m := mdl / 64
  let d := (mdl / 2) % 32
  let common := mdl % 2
  let y : Int := if common = 1 then 1 else 0        -- a representative common / leap year
  if validYmd y m d then mdl - (ordinalOf y m d * 2 + common) else 0

/-- inverse direction: for a valid ordinal `o` (with leap flag), the delta to add to `ol` -/
def monthOfOrdinal (leap : Bool) (o : Nat) : Nat :=
  let y : Int := if leap then 0 else 1
  ((List.range 13).filter (fun m => decide (1 ≤ m) && decide (ordinalOf y m 1 ≤ o))).length

def olDelta (ol : Nat) : Nat :=
  let o := ol / 2
  let common := ol % 2
  let leap := common == 0
  let y : Int := if leap then 0 else 1
  if 1 ≤ o ∧ o ≤ yearLen y then
    let m := monthOfOrdinal leap o
    let d := o - ordinalOf y m 1 + 1
    (m * 64 + d * 2 + common) - ol
  else 0

/-- ISO 8601 week date of a day number: the Thursday of the Monday-based week decides.
Returned as (day number of that Thursday) so that year and week are read off the calendar. -/
def isoThursday (n : Int) : Int := n - weekdayOf n + 3

end Chrono.Spec

namespace Chrono.Spec
/-- a representative year with the leap status encoded in year flags `f` (bit 3 set = common year) -/
def repYear (f : Nat) : Int := if f / 8 % 2 = 1 then 1 else 0

/-- month and day of the `o`-th day of a year with the given leap status -/
def monthOfYo (y : Int) (o : Nat) : Nat := monthOfOrdinal (isLeap y) o
def dayOfYo (y : Int) (o : Nat) : Nat := o - ordinalOf y (monthOfYo y o) 1 + 1
end Chrono.Spec
