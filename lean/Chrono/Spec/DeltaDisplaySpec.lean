/-
  Specification side for C06, second part: an independent reader of the Display text and the
  specification of `Sum` (a fold that checks the range after every step).
-/
import Chrono.Spec.DeltaSpec
namespace Chrono.Spec
open Chrono.M

/-! ### `Sum`: nanosecond counts added left to right, failing at the first partial sum out of range -/
def sumNs : List Int → Int → Option Int
  | [], n => some n
  | x :: xs, n => if nsInRange (n + x) then sumNs xs (n + x) else none

/-! ### reader of `[-]P0D | [-]PT<int>[.<frac>]S`  →  nanoseconds

Written independently of the printer: it consumes characters left to right, accumulates decimal
digits, and scales the fraction by its own length.  It refuses anything else, including an empty
integer part, an empty fraction, more than nine fraction digits, and a fraction that ends in `0`
(trailing zeros must have been trimmed). -/

def isDigit (c : Nat) : Bool := decide (48 ≤ c) && decide (c ≤ 57)

/-- read a maximal run of decimal digits: (value, number of digits, last digit read, rest) -/
def readDigits : List Nat → Nat → Nat → Nat → Nat × Nat × Nat × List Nat
  | [], v, n, l => (v, n, l, [])
  | c :: cs, v, n, l =>
    if isDigit c then readDigits cs (v * 10 + (c - 48)) (n + 1) (c - 48) else (v, n, l, c :: cs)

/-- the unsigned body after `P`: nanoseconds -/
def readBody (t : List Nat) : Option Nat :=
  if t = [48, 68] then some 0                                     -- "0D"
  else match t with
    | 84 :: t1 =>                                                  -- 'T'
      match readDigits t1 0 0 0 with
      | (ip, ni, _, rest) =>
        if ni = 0 then none
        else if rest = [83] then some (ip * 1000000000)            -- "S"
        else match rest with
          | 46 :: t2 =>                                            -- '.'
            match readDigits t2 0 0 0 with
            | (fp, nf, last, rest2) =>
              if nf = 0 ∨ nf > 9 ∨ last = 0 ∨ rest2 ≠ [83] then none
              else some (ip * 1000000000 + fp * 10 ^ (9 - nf))
          | _ => none
    | _ => none

/-- the whole text: optional `-`, then `P`, then the body -/
def readDuration (t : List Nat) : Option Int :=
  match t with
  | 45 :: 80 :: body => (readBody body).map (fun v => -(v : Int))
  | 80 :: body => (readBody body).map (fun v => (v : Int))
  | _ => none

end Chrono.Spec
