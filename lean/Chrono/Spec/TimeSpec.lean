/-
  Specification side for C07.

  A time of day is a point on a line of nanoseconds.  A leap-second operand `(s, f)` with
  `f ≥ 10^9` lives on an *extended* line on which its own extra second occupies `[L, L + 10^9)`
  with `L = (s+1)·10^9`; every later ordinary instant is pushed back by one second.  On that line
  the operand sits at `s·10^9 + f`.  Chrono's documented rule list ("behaves as if there are no
  other leap seconds") is: compute on that line, read the result back, wrap modulo one day.
  Nothing here looks at chrono's branch structure (signs of the parts of the duration etc.).
-/
import Chrono.Model.Time
import Chrono.Spec.DeltaSpec
namespace Chrono.Spec
open Chrono.M

/-- representation invariant of `NaiveTime` as the arithmetic sees it (leap on any second) -/
def TValid (t : Time) : Prop :=
  0 ≤ t.secs ∧ t.secs < 86400 ∧ 0 ≤ t.frac ∧ t.frac < 2000000000
instance (t : Time) : Decidable (TValid t) := by unfold TValid; exact inferInstance

/-- what the public constructors can build: leap representation only on second 59 of a minute -/
def TStrict (t : Time) : Prop := TValid t ∧ (t.frac < 1000000000 ∨ t.secs % 60 = 59)
instance (t : Time) : Decidable (TStrict t) := by unfold TStrict; exact inferInstance

/-- the acceptance rule of the property statement for (hour, minute, second, nanosecond) -/
def okFields (h m s n : Int) : Prop :=
  h < 24 ∧ m < 60 ∧ s < 60 ∧ (n < 1000000000 ∨ (s = 59 ∧ n < 2000000000))
instance (h m s n : Int) : Decidable (okFields h m s n) := by unfold okFields; exact inferInstance

/-- the time of day with the given fields -/
def ofFields (h m s n : Int) : Time := ⟨h * 3600 + m * 60 + s, n⟩

/-- the four fields of a time of day -/
def hourOf (t : Time) : Int := t.secs / 3600
def minuteOf (t : Time) : Int := t.secs / 60 % 60
def secondOf (t : Time) : Int := t.secs % 60

/-- position (in ns) of a time on the line that contains its own leap second, if any -/
def pos (t : Time) : Int := t.secs * 1000000000 + t.frac

/-- `t + δ` (δ in ns) by the extended-line reading; result and carry in *seconds* -/
def addLeap (t : Time) (δ : Int) : Time × Int :=
  let p := pos t + δ
  let L := (t.secs + 1) * 1000000000                  -- start of t's own leap second
  if t.frac ≥ 1000000000 ∧ L ≤ p ∧ p < L + 1000000000 then
    (⟨t.secs, p - t.secs * 1000000000⟩, 0)             -- still inside the leap second
  else
    -- read back: beyond the leap second the ordinary clock is one second behind the line
    let p' := if t.frac ≥ 1000000000 ∧ L + 1000000000 ≤ p then p - 1000000000 else p
    (⟨(p' / 1000000000) % 86400, p' % 1000000000⟩,
     p' / 1000000000 - (p' / 1000000000) % 86400)

/-- position of `x` on the line that contains exactly the leap seconds of the two operands
`x` and `o`: the other operand's leap second lies before `x` iff it follows an earlier second -/
def linePos (x o : Time) : Int :=
  pos x + (if o.frac ≥ 1000000000 ∧ o.secs < x.secs then 1000000000 else 0)

/-- `a − b` in ns -/
def diffLeap (a b : Time) : Int := linePos a b - linePos b a

/-- shifting by a UTC offset moves whole seconds only -/
def shiftOff (t : Time) (off : Int) : Time × Int :=
  (⟨(t.secs + off) % 86400, t.frac⟩, (t.secs + off) / 86400)

end Chrono.Spec
