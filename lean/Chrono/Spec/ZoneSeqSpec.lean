/-
  C05, second review gap 1: a specification of "daylight time under a POSIX rule" that does NOT decide
  year by year.  `Spec.Zone.ruleDst` judges an instant by the two rule transitions of the calendar year
  that contains it (`ruleDstIn`): that is also how the code (and glibc) decides, so for a rule whose
  start/end order differs between two consecutive years it manufactures a change of offset at the
  year boundary, where the rule has no transition at all.  `ruleDstSeq` is the transition-sequence
  reading: the rule is the set of ALL its start and end instants, over all years, and daylight time is
  in force at `t` exactly when the latest of them at or before `t` is a start.
-/
import Chrono.Spec.ZoneSpec

namespace Chrono.Spec.Zone
open Chrono Chrono.M.Tz Chrono.M.TzL

/-- the start/end order of the rule's two transitions is the same in consecutive years (hence in all
years: `Proofs.TzL.orderStable_all`); conjunct 7 of `RuleYearly` -/
def OrderStable (a : Alt) : Prop :=
  ∀ y : Int, (startAt a y ≤ endAt a y) ↔ (startAt a (y + 1) ≤ endAt a (y + 1))

/-- daylight time at `t`, read off the sequence of ALL rule transitions (every year): some start is at
or before `t`, and every end at or before `t` lies strictly before that start, i.e. the latest rule
transition at or before `t` is a start (an end coinciding with the start wins) -/
def ruleDstSeq (a : Alt) (t : Int) : Prop :=
  ∃ y : Int, startAt a y ≤ t ∧ ∀ y' : Int, endAt a y' ≤ t → endAt a y' < startAt a y

/-- the body of `OrderStable` at one year -/
def OrderStableAt (a : Alt) (y : Int) : Prop :=
  (startAt a y ≤ endAt a y) ↔ (startAt a (y + 1) ≤ endAt a (y + 1))

instance (a : Alt) (y : Int) : Decidable (OrderStableAt a y) := by unfold OrderStableAt; infer_instance

/-- `OrderStable`, evaluated on the years 2000 … 2399 (one Gregorian cycle) -/
def orderStableB (a : Alt) : Bool := (List.range 400).all fun k => decide (OrderStableAt a (2000 + (k : Int)))

end Chrono.Spec.Zone
