/-
  Specification side for C18, written from the property text, with its own constants (so that a
  changed constant in the Rust source, re-extracted into `Chrono.Extracted.LocalCache`, makes the
  theorems that connect model and specification fail).

  "The local zone is chosen from the process environment: with TZ unset, the system's
  /etc/localtime; with TZ naming a file (optionally prefixed by a colon, absolute or relative to the
  system zoneinfo directories), that TZif file; with TZ holding a POSIX rule, that rule; with TZ
  empty, UTC; and if the named source cannot be read or parsed, the system zone and finally UTC."
-/
import Chrono.Model.LocalCache
namespace Chrono.Spec.LocalCache
open Chrono.M.LocalCache

/-- "/etc/localtime" -/
def etcLocaltime : Bytes := [47, 101, 116, 99, 47, 108, 111, 99, 97, 108, 116, 105, 109, 101]
/-- "localtime" -/
def localtimeWord : Bytes := [108, 111, 99, 97, 108, 116, 105, 109, 101]
/-- "/usr/share/zoneinfo" -/
def usrShareZoneinfo : Bytes := [47, 117, 115, 114, 47, 115, 104, 97, 114, 101, 47, 122, 111, 110, 101, 105, 110, 102, 111]
/-- the system zoneinfo directories, in the order they are searched:
"/usr/share/zoneinfo", "/share/zoneinfo", "/etc/zoneinfo", "/usr/share/lib/zoneinfo" -/
def zoneinfoDirs : List Bytes :=
  [usrShareZoneinfo,
   [47, 115, 104, 97, 114, 101, 47, 122, 111, 110, 101, 105, 110, 102, 111],
   [47, 101, 116, 99, 47, 122, 111, 110, 101, 105, 110, 102, 111],
   [47, 117, 115, 114, 47, 115, 104, 97, 114, 101, 47, 108, 105, 98, 47, 122, 111, 110, 101, 105, 110, 102, 111]]
def slash : Nat := 47
def colon : Nat := 58

/-- the places a file name may denote: itself when absolute, else below each zoneinfo directory -/
def candidates (name : Bytes) : List Bytes :=
  if name.head? = some slash then [name] else zoneinfoDirs.map (fun d => d ++ slash :: name)

def exists_ (W : World) (p : Bytes) : Bool := W.fs p != .absent

/-- the file a name denotes: the first candidate that exists -/
def fileNamed (W : World) (name : Bytes) : Option Bytes := (candidates name).find? (exists_ W)

/-- the zone stored in a file, if it can be read and parsed -/
def zoneIn (W : World) (p : Bytes) : Option Zone :=
  match W.fs p with
  | .data (some c) => some (.tzif p c)
  | _ => none

/-- the string with ASCII white space removed at both ends -/
def trimmed (s : Bytes) : Bytes :=
  let ws := fun b => b == 32 || b == 9 || b == 10 || b == 12 || b == 13
  ((s.dropWhile ws).reverse.dropWhile ws).reverse

/-- the zone the environment names; `none` when the named source cannot be read or parsed.
`tz = none`: TZ unset (or not readable as text). -/
def named (W : World) : Option Bytes → Option Zone
  | none => zoneIn W etcLocaltime
  | some [] => some .utc
  | some (c :: rest) =>
    if c :: rest = localtimeWord then zoneIn W etcLocaltime
    else if c = colon then (fileNamed W rest).bind (zoneIn W)
    else match fileNamed W (c :: rest) with
      | some p => zoneIn W p
      | none => (W.rule (trimmed (c :: rest))).map (Zone.rule (trimmed (c :: rest)))

/-- the system zone: the zone file of the name the system reports -/
def systemZone (W : World) : Option Zone :=
  W.sysName.bind (fun n => zoneIn W (usrShareZoneinfo ++ slash :: n))

/-- the zone `Local` has to use under a given value of TZ -/
def zoneFor (W : World) (tz : Option Bytes) : Zone :=
  (named W tz).getD ((systemZone W).getD .utc)

/-! ### histories -/

def isChange : Step → Bool
  | .setTZ _ => true
  | .setNotUnicode => true
  | .unsetTZ => true
  | _ => false

/-- the value of TZ after a history, as a program reads it (`none`: unset or not text) -/
def envAfter (e : EnvVal) : List Step → EnvVal
  | [] => e
  | .setTZ v :: xs => envAfter (.val v) xs
  | .setNotUnicode :: xs => envAfter .notUnicode xs
  | .unsetTZ :: xs => envAfter .unset xs
  | _ :: xs => envAfter e xs

/-- total time that passes in a history, nanoseconds -/
def elapsed : List Step → Nat
  | [] => 0
  | .advance n :: xs => n + elapsed xs
  | _ :: xs => elapsed xs

/-- no conversion on thread `t` in the history -/
def noConvertOn (t : Nat) : List Step → Bool
  | [] => true
  | .convert t' _ :: xs => t' != t && noConvertOn t xs
  | _ :: xs => noConvertOn t xs

def envValue : EnvVal → List Bytes
  | .val v => [v]
  | _ => []
def stepValue : Step → Option Bytes
  | .setTZ v => some v
  | _ => none

/-- the TZ values that occur in a history (plus the initial one) -/
def valuesOf (e : EnvVal) (h : List Step) : List Bytes := envValue e ++ h.filterMap stepValue

def ONE_SECOND : Nat := 1000000000

end Chrono.Spec.LocalCache
