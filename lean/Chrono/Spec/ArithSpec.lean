/-
  Specification side for C03: what "exact or refused" means, on day numbers (dates) and on
  nanosecond instants (date-times).  Nothing here looks at chrono's algorithms (fast path, 400-year
  cycle, time-of-day carry): a shift is described by the day number / instant of the result alone,
  and `dayShift_unique` / `instShift_unique` (Props/C03.lean) show that this determines the result.
-/
import Chrono.Spec.InstantSpec
namespace Chrono.Spec
open Chrono.M Chrono.Extracted


/-- day numbers of `NaiveDate::MIN` and `NaiveDate::MAX` -/
def DN_MIN : Int := dayNumOf Date.MIN
def DN_MAX : Int := dayNumOf Date.MAX

/-- nanoseconds per day -/
def NS_PER_DAY : Int := 86400000000000

/-- `r` is the outcome of moving date `d` by exactly `k` days: refused iff day `dayNum d + k` is
outside `[MIN, MAX]`, otherwise a valid date with exactly that day number -/
def IsDayShift (d : Date) (k : Int) (r : Option Date) : Prop :=
  (r = none ↔ (dayNumOf d + k < DN_MIN ∨ DN_MAX < dayNumOf d + k)) ∧
  ∀ d', r = some d' → DateInv d' ∧ dayNumOf d' = dayNumOf d + k

/-- `r` is the outcome of moving the non-leap date-time `dt` by exactly `k` nanoseconds: refused iff
the instant is outside `[NaiveDateTime::MIN, NaiveDateTime::MAX]`, otherwise a valid non-leap
date-time at exactly that instant -/
def IsInstShift (dt : NaiveDT) (k : Int) (r : Option NaiveDT) : Prop :=
  (r = none ↔ (instNs dt + k < NS_MIN ∨ NS_MAX_DT < instNs dt + k)) ∧
  ∀ dt', r = some dt' → NDTInv dt' ∧ NonLeap dt' ∧ instNs dt' = instNs dt + k

/-- sign as the derived `Ord` reports it -/
def sgn (x : Int) : Int := if x < 0 then -1 else if x > 0 then 1 else 0

/-- whole days of a nanosecond count, truncated toward zero (`TimeDelta::num_days`) -/
def wholeDays (n : Int) : Int := Int.tdiv n NS_PER_DAY

/-- how many steps of `s ≠ 0` days fit between day number `n` and the range limit that lies in the
direction of `s` (`MAX` for `s > 0`, `MIN` for `s < 0`) -/
def stepsFit (n s : Int) : Int := if s > 0 then (DN_MAX - n) / s else (n - DN_MIN) / (-s)

end Chrono.Spec
