/-
  Specification for C12, documentation side: the "Specifiers" table of the module documentation of
  src/format/strftime.rs TRANSCRIBED ROW BY ROW (specifier, example cell, description cell), each row
  with its formal reading — which formatting item the sentence describes, or which format string it
  is "the same as".  Written from the documentation text, not from the `match spec` arms of
  `parse_next_item`.

  Two obligations tie it (Props/C12.lean):
  * `doc_table_is_source`: the transcription is character for character the table that
    tools/extractors/strftime_doc.py reads from the doc comment on every run — a changed
    documentation row breaks it;
  * `documented_items` / `composite_rows_expand`: the code's tokenizer yields, for the TEXT of every
    row, exactly the item(s) of the reading — an exchanged or changed arm breaks it.
  The Example column is checked too (`doc_examples_ok`): the value of the documentation's
  examples is 2001-07-08T00:34:60.026490+09:30.

  Where the documentation is silent the reading follows its own examples elsewhere: `%f` has no
  stated width (nine digits, zero padded, as its Example cell and footnote 7 show since the repair of
  finding F31), `%x %X %r %c` are "the locale's" forms = the POSIX-locale expansions.
-/
import Chrono.Spec.StrftimeSpec
namespace Chrono.Spec.StrftimeDoc
open Chrono.M Chrono.Spec Chrono.Spec.Strftime

/-- what a documentation row says the specifier is -/
inductive Reading where
  /-- one formatting item (a field with its default padding, a name, an offset form, a literal) -/
  | item (it : Item)
  /-- a composite: prints what this format string prints -/
  | sameAs (fmt : String)
  deriving DecidableEq, Repr

structure DocRow where
  /-- the specifier text after `%` -/
  spec : String
  /-- the Example cell (without the back-ticks) -/
  ex : String
  /-- the Description cell -/
  descr : String
  reading : Reading
  deriving DecidableEq, Repr

/-- the documentation table, in source order -/
def docRows : List DocRow := [
  ⟨"Y", "2001",
   "The full proleptic Gregorian year, zero-padded to 4 digits. chrono supports years from -262144 to 262143. Note: years before 1 BCE or after 9999 CE, require an initial sign (+/-).",
   .item (.numeric .year .zero)⟩,
  ⟨"C", "20",
   "The proleptic Gregorian year divided by 100, zero-padded to 2 digits. [^1]",
   .item (.numeric .yearDiv100 .zero)⟩,
  ⟨"y", "01",
   "The proleptic Gregorian year modulo 100, zero-padded to 2 digits. [^1]",
   .item (.numeric .yearMod100 .zero)⟩,
  ⟨"q", "3",
   "Quarter of year (1-4)",
   .item (.numeric .quarter .none)⟩,
  ⟨"m", "07",
   "Month number (01--12), zero-padded to 2 digits.",
   .item (.numeric .month .zero)⟩,
  ⟨"b", "Jul",
   "Abbreviated month name. Always 3 letters.",
   .item (.fixed .shortMonthName)⟩,
  ⟨"B", "July",
   "Full month name. Also accepts corresponding abbreviation in parsing.",
   .item (.fixed .longMonthName)⟩,
  ⟨"h", "Jul",
   "Same as `%b`.",
   .item (.fixed .shortMonthName)⟩,
  ⟨"d", "08",
   "Day number (01--31), zero-padded to 2 digits.",
   .item (.numeric .day .zero)⟩,
  ⟨"e", " 8",
   "Same as `%d` but space-padded. Same as `%_d`.",
   .item (.numeric .day .space)⟩,
  ⟨"a", "Sun",
   "Abbreviated weekday name. Always 3 letters.",
   .item (.fixed .shortWeekdayName)⟩,
  ⟨"A", "Sunday",
   "Full weekday name. Also accepts corresponding abbreviation in parsing.",
   .item (.fixed .longWeekdayName)⟩,
  ⟨"w", "0",
   "Sunday = 0, Monday = 1, ..., Saturday = 6.",
   .item (.numeric .numDaysFromSun .none)⟩,
  ⟨"u", "7",
   "Monday = 1, Tuesday = 2, ..., Sunday = 7. (ISO 8601)",
   .item (.numeric .weekdayFromMon .none)⟩,
  ⟨"U", "27",
   "Week number starting with Sunday (00--53), zero-padded to 2 digits. [^2]",
   .item (.numeric .weekFromSun .zero)⟩,
  ⟨"W", "27",
   "Same as `%U`, but week 1 starts with the first Monday in that year instead.",
   .item (.numeric .weekFromMon .zero)⟩,
  ⟨"G", "2001",
   "Same as `%Y` but uses the year number in ISO 8601 week date. [^3]",
   .item (.numeric .isoYear .zero)⟩,
  ⟨"g", "01",
   "Same as `%y` but uses the year number in ISO 8601 week date. [^3]",
   .item (.numeric .isoYearMod100 .zero)⟩,
  ⟨"V", "27",
   "Same as `%U` but uses the week number in ISO 8601 week date (01--53). [^3]",
   .item (.numeric .isoWeek .zero)⟩,
  ⟨"j", "189",
   "Day of the year (001--366), zero-padded to 3 digits.",
   .item (.numeric .ordinal .zero)⟩,
  ⟨"D", "07/08/01",
   "Month-day-year format. Same as `%m/%d/%y`.",
   .sameAs "%m/%d/%y"⟩,
  ⟨"x", "07/08/01",
   "Locale's date representation (e.g., 12/31/99).",
   .sameAs "%m/%d/%y"⟩,
  ⟨"F", "2001-07-08",
   "Year-month-day format (ISO 8601). Same as `%Y-%m-%d`.",
   .sameAs "%Y-%m-%d"⟩,
  ⟨"v", " 8-Jul-2001",
   "Day-month-year format. Same as `%e-%b-%Y`.",
   .sameAs "%e-%b-%Y"⟩,
  ⟨"H", "00",
   "Hour number (00--23), zero-padded to 2 digits.",
   .item (.numeric .hour .zero)⟩,
  ⟨"k", " 0",
   "Same as `%H` but space-padded. Same as `%_H`.",
   .item (.numeric .hour .space)⟩,
  ⟨"I", "12",
   "Hour number in 12-hour clocks (01--12), zero-padded to 2 digits.",
   .item (.numeric .hour12 .zero)⟩,
  ⟨"l", "12",
   "Same as `%I` but space-padded. Same as `%_I`.",
   .item (.numeric .hour12 .space)⟩,
  ⟨"P", "am",
   "`am` or `pm` in 12-hour clocks.",
   .item (.fixed .lowerAmPm)⟩,
  ⟨"p", "AM",
   "`AM` or `PM` in 12-hour clocks.",
   .item (.fixed .upperAmPm)⟩,
  ⟨"M", "34",
   "Minute number (00--59), zero-padded to 2 digits.",
   .item (.numeric .minute .zero)⟩,
  ⟨"S", "60",
   "Second number (00--60), zero-padded to 2 digits. [^4]",
   .item (.numeric .second .zero)⟩,
  ⟨"f", "026490000",
   "Number of nanoseconds since last whole second. [^7]",
   .item (.numeric .nanosecond .zero)⟩,
  ⟨".f", ".026490",
   "Decimal fraction of a second. Consumes the leading dot. [^7]",
   .item (.fixed .nanosecond)⟩,
  ⟨".3f", ".026",
   "Decimal fraction of a second with a fixed length of 3.",
   .item (.fixed .nanosecond3)⟩,
  ⟨".6f", ".026490",
   "Decimal fraction of a second with a fixed length of 6.",
   .item (.fixed .nanosecond6)⟩,
  ⟨".9f", ".026490000",
   "Decimal fraction of a second with a fixed length of 9.",
   .item (.fixed .nanosecond9)⟩,
  ⟨"3f", "026",
   "Decimal fraction of a second like `%.3f` but without the leading dot.",
   .item (.fixed .nanosecond3NoDot)⟩,
  ⟨"6f", "026490",
   "Decimal fraction of a second like `%.6f` but without the leading dot.",
   .item (.fixed .nanosecond6NoDot)⟩,
  ⟨"9f", "026490000",
   "Decimal fraction of a second like `%.9f` but without the leading dot.",
   .item (.fixed .nanosecond9NoDot)⟩,
  ⟨"R", "00:34",
   "Hour-minute format. Same as `%H:%M`.",
   .sameAs "%H:%M"⟩,
  ⟨"T", "00:34:60",
   "Hour-minute-second format. Same as `%H:%M:%S`.",
   .sameAs "%H:%M:%S"⟩,
  ⟨"X", "00:34:60",
   "Locale's time representation (e.g., 23:13:48).",
   .sameAs "%H:%M:%S"⟩,
  ⟨"r", "12:34:60 AM",
   "Locale's 12 hour clock time. (e.g., 11:11:04 PM). Falls back to `%X` if the locale does not have a 12 hour clock format.",
   .sameAs "%I:%M:%S %p"⟩,
  ⟨"Z", "ACST",
   "Local time zone name. Skips all non-whitespace characters during parsing. Identical to `%:z` when formatting. [^8]",
   .item (.fixed .timezoneName)⟩,
  ⟨"z", "+0930",
   "Offset from the local time to UTC (with UTC being `+0000`).",
   .item (.fixed .timezoneOffset)⟩,
  ⟨":z", "+09:30",
   "Same as `%z` but with a colon.",
   .item (.fixed .timezoneOffsetColon)⟩,
  ⟨"::z", "+09:30:00",
   "Offset from the local time to UTC with seconds.",
   .item (.fixed .timezoneOffsetDoubleColon)⟩,
  ⟨":::z", "+09",
   "Offset from the local time to UTC without minutes.",
   .item (.fixed .timezoneOffsetTripleColon)⟩,
  ⟨"#z", "+09",
   "*Parsing only:* Same as `%z` but allows minutes to be missing or present.",
   .item (.fixed .timezoneOffsetPermissive)⟩,
  ⟨"c", "Sun Jul  8 00:34:60 2001",
   "Locale's date and time (e.g., Thu Mar  3 23:05:25 2005).",
   .sameAs "%a %b %e %H:%M:%S %Y"⟩,
  ⟨"+", "2001-07-08T00:34:60.026490+09:30",
   "ISO 8601 / RFC 3339 date & time format. [^5]",
   .item (.fixed .rfc3339)⟩,
  ⟨"s", "994518299",
   "UNIX timestamp, the number of seconds since 1970-01-01 00:00 UTC. [^6]",
   .item (.numeric .timestamp .none)⟩,
  ⟨"t", "",
   "Literal tab (`\\t`).",
   .item (.space [9])⟩,
  ⟨"n", "",
   "Literal newline (`\\n`).",
   .item (.space [10])⟩,
  ⟨"%", "",
   "Literal percent sign.",
   .item (.literal [37])⟩
]

/-- specifier text ↦ item, for the rows that describe one item -/
def docTable : List (String × Item) :=
  docRows.filterMap fun r => match r.reading with | .item it => some (r.spec, it) | .sameAs _ => none

/-- composite specifier ↦ its expansion, for the other rows (as format strings with the `%`) -/
def docComposites : List (String × String) :=
  docRows.filterMap fun r => match r.reading with | .sameAs f => some ("%" ++ r.spec, f) | .item _ => none

/-- the padding-modifier table ("It is possible to override the default padding behavior of numeric
specifiers"): modifier byte, padding it selects, description -/
def docModifiers : List (Nat × Pad × String) :=
  [(45, .none, "Suppresses any padding including spaces and zeroes. (e.g. `%j` = `012`, `%-j` = `12`)"),
   (95, .space, "Uses spaces as a padding. (e.g. `%j` = `012`, `%_j` = ` 12`)"),
   (48, .zero, "Uses zeroes as a padding. (e.g. `%e` = ` 9`, `%0e` = `09`)")]

/-! ### the value of the Example column: 2001-07-08T00:34:60.026490+09:30 -/
def exYear : Int := 2001
def exOrdinal : Nat := 189
def exTime : Time := ⟨2099, 1026490000⟩
def exOff : Int := 34200

/-- the one Example cell that is not what formatting prints, BY THE DOCUMENTATION'S OWN ACCOUNT: `%Z`
shows a zone abbreviation (`ACST`) but footnote 8 says that "this specifier only prints the offset
when used for formatting" ("Identical to `%:z`"): the text printed instead -/
def exampleDivergent : List (String × String) := [("Z", "+09:30")]
/-- footnote 7: "7μs is formatted as `000007000` with `%f`, and formatted as `.000007` with `%.f`" -/
def footnote7 : String × String := ("000007000", ".000007")
/-- the cells of `%q`, `%U`, `%f` and the `%f` text of footnote 7 BEFORE the repair of finding F31
(/repo commit 9d96a4b): pinned pre-fix documentation, not what formatting prints -/
def exampleBeforeF31 : List (String × String) := [("q", "1"), ("U", "28"), ("f", "26490000")]
def footnote7BeforeF31 : String := "7000"
/-- rows whose example is for parsing only (formatting fails) -/
def exampleParsingOnly : List String := ["#z"]

/-! ### which views of a value an item reads (the table's section headings) -/

structure Views where
  date : Bool
  time : Bool
  off : Bool
  deriving DecidableEq, Repr

/-- DATE SPECIFIERS read the date, TIME SPECIFIERS the time, TIME ZONE SPECIFIERS the offset, `%+`
all three, `%s` date and time (the offset is taken as UTC when the value has none); literals nothing -/
def viewsOf : Item → Views
  | .numeric n _ =>
    match n with
    | .hour | .hour12 | .minute | .second | .nanosecond => ⟨false, true, false⟩
    | .timestamp => ⟨true, true, false⟩
    | _ => ⟨true, false, false⟩
  | .fixed f =>
    match f with
    | .shortMonthName | .longMonthName | .shortWeekdayName | .longWeekdayName => ⟨true, false, false⟩
    | .lowerAmPm | .upperAmPm | .nanosecond | .nanosecond3 | .nanosecond6 | .nanosecond9
    | .nanosecond3NoDot | .nanosecond6NoDot | .nanosecond9NoDot => ⟨false, true, false⟩
    | .rfc2822 | .rfc3339 => ⟨true, true, true⟩
    | _ => ⟨false, false, true⟩
  | _ => ⟨false, false, false⟩

/-- `%Z` when formatting a value with a fixed offset: "Identical to `%:z`" — the offset with a colon;
an offset with seconds shows them (the name of a fixed offset keeps its seconds) -/
def zoneText (off : Int) : List Nat :=
  if off % 60 = 0 then renderOffset .colon off else renderOffset .seconds off

/-- `%+`: "Same as `%Y-%m-%dT%H:%M:%S%.f%:z`", as text -/
def rfc3339Text (y : Int) (o : Nat) (t : Time) (off : Int) : List Nat :=
  renderNumeric .year .zero y o t off ++ [45] ++ renderNumeric .month .zero y o t off ++ [45] ++
  renderNumeric .day .zero y o t off ++ [84] ++ renderNumeric .hour .zero y o t off ++ [58] ++
  renderNumeric .minute .zero y o t off ++ [58] ++ renderNumeric .second .zero y o t off ++
  fracAuto t.frac ++ renderOffset .colon off

/-- the documented text of one item for the date (year `y`, ordinal `o`), time `t`, offset `off`;
`none` = formatting fails (the parsing-only item, `Item::Error`) -/
def renderItem (it : Item) (y : Int) (o : Nat) (t : Time) (off : Int) : Option (List Nat) :=
  match it with
  | .literal s => some s
  | .space s => some s
  | .numeric n p => some (renderNumeric n p y o t off)
  | .fixed .timezoneName => some (zoneText off)
  | .fixed .rfc3339 => some (rfc3339Text y o t off)
  | .fixed f => renderFixed f y o t off
  | .error => none

/-! ### a value that has only some of the views (`NaiveDate`: date; `NaiveTime`: time; `NaiveDateTime`:
date and time; `DateTime`: all three) -/

def Views.le (a b : Views) : Bool := (!a.date || b.date) && (!a.time || b.time) && (!a.off || b.off)

/-- the documented text of one item for a value with the views `hv`: fails when the item reads a view
the value does not have; `%s` of a value without offset counts from UTC -/
def renderItemOn (hv : Views) (it : Item) (y : Int) (o : Nat) (t : Time) (off : Int) : Option (List Nat) :=
  if (viewsOf it).le hv then renderItem it y o t (if hv.off then off else 0) else none

/-- the documented text of a whole item list: the concatenation, failing if one item fails -/
def renderItemsOn (hv : Views) (is : List Item) (y : Int) (o : Nat) (t : Time) (off : Int) : Option (List Nat) :=
  match is with
  | [] => some []
  | it :: rest =>
    match renderItemOn hv it y o t off, renderItemsOn hv rest y o t off with
    | some a, some b => some (a ++ b)
    | _, _ => none

/-- the views of the four types that have a `format` method -/
def dateViews : Views := ⟨true, false, false⟩     -- NaiveDate
def timeViews : Views := ⟨false, true, false⟩     -- NaiveTime
def naiveViews : Views := ⟨true, true, false⟩     -- NaiveDateTime
def zonedViews : Views := ⟨true, true, true⟩      -- DateTime<Tz>

/-! ### format strings built from the documented specifiers -/

def isNumericRow (r : DocRow) : Bool :=
  match r.reading with
  | .item (.numeric _ _) => true
  | _ => false

/-- every complete specifier text the documentation allows: `%` + a row of the table, and `%` + a
padding modifier + a numeric row -/
def specTexts : List (List Nat) :=
  docRows.map (fun r => 37 :: str r.spec) ++
  (docRows.filter isNumericRow).flatMap (fun r => docModifiers.map (fun m => 37 :: m.1 :: str r.spec))

/-! ### a zone that has a name of its own (round 3): `DateTime<Utc>` -/

/-- the `Display` text of the `Utc` zone -/
def utcName : List Nat := str "UTC"

/-- the documented text of one item for a zone-aware value whose zone shows itself as `name`: `%Z`
prints that name ("Local time zone name"), every other item is as for the offset alone -/
def renderItemNamed (name : List Nat) (it : Item) (y : Int) (o : Nat) (t : Time) (off : Int) : Option (List Nat) :=
  match it with
  | .fixed .timezoneName => some name
  | it => renderItem it y o t off

def renderItemsNamed (name : List Nat) (is : List Item) (y : Int) (o : Nat) (t : Time) (off : Int) :
    Option (List Nat) :=
  match is with
  | [] => some []
  | it :: rest =>
    match renderItemNamed name it y o t off, renderItemsNamed name rest y o t off with
    | some a, some b => some (a ++ b)
    | _, _ => none

end Chrono.Spec.StrftimeDoc
