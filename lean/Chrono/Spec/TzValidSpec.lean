/-
  Specification side of C16, part 2: what `TimeZone::validate` (timezone.rs) demands of a zone that
  has BOTH a transition table and a footer rule, stated independently of `validate`'s control flow:

  * `leapToUnix`  — `unix_leap_time_to_unix_time` read off its documentation: subtract the correction of
    the last leap-second record strictly before the given leap time (filter, not binary search);
  * `RuleAgrees`  — the local time type of the LAST transition equals (same `ut_offset`, `is_dst`, name)
    the type the rule yields at that transition's instant, the rule lookup being property C05's model
    `TransitionRule::find_local_time_type` (Model/TzLookup.lean);
  * `RuleAgreesSpec` — the same against C05's SPECIFICATION of a rule (`Spec.Zone.ruleOff`: the rule
    transitions of the calendar year containing the instant decide).
-/
import Chrono.Spec.TzSpec
import Chrono.Spec.ZoneSpec
namespace Chrono.Spec.Tz
open Chrono Chrono.M.Tz

/-- correction in force just before leap time `ult`: that of the last leap-second record whose
`unix_leap_time` is strictly smaller; 0 if there is none -/
def leapCorrBefore (leaps : List LeapSecond) (ult : Int) : Int :=
  match (leaps.filter (fun l => decide (l.time < ult))).getLast? with
  | some l => l.corr
  | none => 0

/-- `unix_leap_time_to_unix_time`; `none` = `Err` (`i64::MIN`, or the difference leaves `i64`) -/
def leapToUnix (leaps : List LeapSecond) (ult : Int) : Option Int :=
  if ult = I64_MIN then none else optI64 (ult - leapCorrBefore leaps ult)

/-- leap-second records in strictly increasing time order -/
def LeapsSorted (ls : List LeapSecond) : Prop := List.Pairwise (fun a b : LeapSecond => a.time < b.time) ls

/-- consecutive leap-second records: at least 28 days − 1 s apart, corrections differing by exactly
one second (plain integer arithmetic; nothing saturates) -/
def LeapPairsOk : List LeapSecond → Prop
  | [] => True
  | [_] => True
  | x0 :: x1 :: rest =>
    x1.time - x0.time ≥ 2419199 ∧ (x1.corr - x0.corr).natAbs = 1 ∧ LeapPairsOk (x1 :: rest)

/-- the leap-second table constraints of RFC 8536 as `validate` enforces them: the first record is
at a non-negative time with correction +1 or −1, consecutive records are `LeapPairsOk` -/
def LeapsOk (ls : List LeapSecond) : Prop :=
  (match ls with
    | [] => True
    | l0 :: _ => 0 ≤ l0.time ∧ l0.corr.natAbs = 1) ∧ LeapPairsOk ls

/-- rule / table agreement as `validate` demands it: with `last` the last transition and `ut` its
instant, the rule lookup (C05's model of `TransitionRule::find_local_time_type`) succeeds at `ut` and
returns exactly the local time type `last` switches to (`Ltt` equality = same offset, DST flag and
designation).  Vacuous without a rule or without transitions. -/
def RuleAgrees (z : Zone) : Prop :=
  ∀ rule last, z.rule = some rule → z.transitions.getLast? = some last →
    ∃ ut t, leapToUnix z.leaps last.time = some ut ∧ z.types[last.idx]? = some t ∧
      rule.find_local_time_type ut = some t

/-- the same against C05's specification of what a rule prescribes at an instant -/
def RuleAgreesSpec (z : Zone) : Prop :=
  ∀ rule last, z.rule = some rule → z.transitions.getLast? = some last →
    ∃ ut, leapToUnix z.leaps last.time = some ut ∧
      z.types[last.idx]? = some (Spec.Zone.ruleOff rule ut)

end Chrono.Spec.Tz
