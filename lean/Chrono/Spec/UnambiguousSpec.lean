/-
  Specification side of C13: which item lists determine a value unambiguously for a target type
  (`Unambiguous`), which values such a list can carry through its reader (`expressible`), and what
  the round trip must return (`truncate_to_precision`: the value cut to the precision the format
  prints).  Nothing here looks at the parser's or the formatter's branch structure; the only model
  functions used are field accessors of the value types (C01/C07), `Zoned.from_local_datetime`
  (C04) to put a truncated local reading back at an offset and `Zoned.naive_local` (C04) to ask whether
  the wall clock of an instant at an offset exists.

  Outside the family by definition (`invertible = false`): the print-only items `%::z`, `%:::z`, `%Z`,
  the read-only item `%#z`, `%+`/RFC 2822 (properties C10/C11 own them) and `Item::Error`.
-/
import Chrono.Model.ParseFrom
namespace Chrono.Spec
open Chrono.M Chrono.M.ParseFrom

/-- the fields an item list carries (what the reader can set from it) -/
structure Carries where
  year : Bool := false
  yearDiv : Bool := false
  yearMod : Bool := false
  isoYear : Bool := false
  isoYearDiv : Bool := false
  isoYearMod : Bool := false
  quarter : Bool := false
  month : Bool := false
  day : Bool := false
  weekSun : Bool := false
  weekMon : Bool := false
  isoWeek : Bool := false
  weekday : Bool := false
  ordinal : Bool := false
  hour24 : Bool := false
  hour12 : Bool := false
  ampm : Bool := false
  minute : Bool := false
  second : Bool := false
  nano : Bool := false
  timestamp : Bool := false
  offset : Bool := false
  deriving DecidableEq, Repr

def carriesItem (c : Carries) : Item → Carries
  | .numeric .year _ => { c with year := true }
  | .numeric .yearDiv100 _ => { c with yearDiv := true }
  | .numeric .yearMod100 _ => { c with yearMod := true }
  | .numeric .isoYear _ => { c with isoYear := true }
  | .numeric .isoYearDiv100 _ => { c with isoYearDiv := true }
  | .numeric .isoYearMod100 _ => { c with isoYearMod := true }
  | .numeric .quarter _ => { c with quarter := true }
  | .numeric .month _ | .fixed .shortMonthName | .fixed .longMonthName => { c with month := true }
  | .numeric .day _ => { c with day := true }
  | .numeric .weekFromSun _ => { c with weekSun := true }
  | .numeric .weekFromMon _ => { c with weekMon := true }
  | .numeric .isoWeek _ => { c with isoWeek := true }
  | .numeric .numDaysFromSun _ | .numeric .weekdayFromMon _ | .fixed .shortWeekdayName
  | .fixed .longWeekdayName => { c with weekday := true }
  | .numeric .ordinal _ => { c with ordinal := true }
  | .numeric .hour _ => { c with hour24 := true }
  | .numeric .hour12 _ => { c with hour12 := true }
  | .fixed .lowerAmPm | .fixed .upperAmPm => { c with ampm := true }
  | .numeric .minute _ => { c with minute := true }
  | .numeric .second _ => { c with second := true }
  | .numeric .nanosecond _ | .fixed .nanosecond | .fixed .nanosecond3 | .fixed .nanosecond6
  | .fixed .nanosecond9 | .fixed .nanosecond3NoDot | .fixed .nanosecond6NoDot
  | .fixed .nanosecond9NoDot => { c with nano := true }
  | .numeric .timestamp _ => { c with timestamp := true }
  | .fixed .timezoneOffset | .fixed .timezoneOffsetZ | .fixed .timezoneOffsetColon
  | .fixed .timezoneOffsetColonZ => { c with offset := true }
  | _ => c

def carries (is : List Item) : Carries := is.foldl carriesItem {}

/-- items the reader can invert -/
def invertible : Item → Bool
  | .literal _ | .space _ | .numeric _ _ => true
  | .fixed .timezoneName | .fixed .timezoneOffsetDoubleColon | .fixed .timezoneOffsetTripleColon => false  -- print-only
  | .fixed .timezoneOffsetPermissive => false                                                                 -- read-only
  | .fixed .rfc2822 | .fixed .rfc3339 => false
  | .fixed _ => true
  | .error => false

/-- the items carry the instant only as a timestamp: `%s`, optionally next to an offset item, and
no date, time or fraction field (`%s`, `%s %z`, `%s%:z`, `%z %s`, with literals and white space) -/
def stampOnly (c : Carries) : Bool := c == { timestamp := true, offset := c.offset }

/-- a year group (full year, century, two-digit year) from which the reader gets a year -/
def yearGroup (y _q r : Bool) : Bool := y || r
/-- a full date in calendar, ordinal, Sunday-week, Monday-week or ISO-week form -/
def fullDate (c : Carries) : Bool :=
  (yearGroup c.year c.yearDiv c.yearMod &&
    ((c.month && c.day) || c.ordinal || (c.weekSun && c.weekday) || (c.weekMon && c.weekday))) ||
  (yearGroup c.isoYear c.isoYearDiv c.isoYearMod && c.isoWeek && c.weekday)
/-- a full time: hour (24-hour, or 12-hour with am/pm), minute, and the second whenever a fraction
is given -/
def fullTime (c : Carries) : Bool :=
  (c.hour24 || (c.hour12 && c.ampm)) && c.minute && (!c.nano || c.second)

def startsNonDigit (s : List Nat) : Bool :=
  match s with
  | [] => false
  | b :: _ => !Scan.isDigit b

/-- the reader takes this item's rendering in full whatever follows: a zero-padded number whose
rendering fills the reader's width (for `%Y`/`%G` this holds for years 0–9999 only, see
`expressible`), the one-digit items, the dot-less fraction items, names, am/pm, offsets, literals -/
def selfDelimiting : Item → Bool
  | .numeric .timestamp _ => false
  | .numeric .quarter _ | .numeric .numDaysFromSun _ | .numeric .weekdayFromMon _ => true
  | .numeric _ .zero => true
  | .numeric _ _ => false
  | .fixed .nanosecond | .fixed .nanosecond3 | .fixed .nanosecond6 | .fixed .nanosecond9 => false
  | _ => true

/-- the rendering of this item cannot continue a number: it starts with something that is neither a
digit nor (for literals) empty.  `%.3f %.6f %.9f` always print a dot first. -/
def stopsNumber : Item → Bool
  | .literal s => startsNonDigit s
  | .space s => startsNonDigit s
  | .fixed .shortMonthName | .fixed .longMonthName | .fixed .shortWeekdayName | .fixed .longWeekdayName
  | .fixed .lowerAmPm | .fixed .upperAmPm => true
  | .fixed .timezoneOffset | .fixed .timezoneOffsetColon => true      -- start with a sign
  | .fixed .nanosecond3 | .fixed .nanosecond6 | .fixed .nanosecond9 => true   -- start with a dot
  | _ => false

/-- the rendering starts with a dot (it would be taken for the start of an omitted `%.f` fraction): a
literal that starts with one, and the fixed-width dot-fraction items -/
def startsWithDot : Item → Bool
  | .literal (46 :: _) => true
  | .fixed .nanosecond3 | .fixed .nanosecond6 | .fixed .nanosecond9 => true
  | _ => false

/-- a numeric item -/
def isNumber : Item → Bool
  | .numeric _ _ => true
  | _ => false

/-- `%.f`: prints nothing for a whole second, a dot and 3, 6 or 9 digits otherwise -/
def isOptFrac : Item → Bool
  | .fixed .nanosecond => true
  | _ => false

/-- between a variable-width number and the next item there is a separator that is not a digit — where
the next item is `%.f` (nothing, or a dot and digits) the separator is the dot or whatever follows `%.f`,
which must end `%.f`'s own digits anyway (`%-S%.f`, `%H:%M:%_S%.f %p`); and `%.f` (which prints nothing
for a whole second) is not followed by something that starts with a dot -/
def separated : List Item → Bool
  | [] => true
  | [_] => true
  | a :: b :: rest =>
    ((selfDelimiting a || stopsNumber b) || (isNumber a && isOptFrac b)) &&
      (!(a == .fixed .nanosecond) || !startsWithDot b) && separated (b :: rest)

/-- some `%Y` (resp. `%G`) is directly followed by something that may start with a digit: only the
fixed four-digit rendering can be told apart then -/
def yearTouchesDigits (n : Numeric) : List Item → Bool
  | [] => false
  | [_] => false
  | a :: b :: rest =>
    (match a with
     | .numeric m _ => decide (m = n) && !stopsNumber b
     | _ => false) || yearTouchesDigits n (b :: rest)

/-! ### what a target type can print -/

/-- what an item needs from the value it is printed for: (a date, a time of day, an offset) -/
def itemNeeds : Item → Bool × Bool × Bool
  | .literal _ | .space _ => (false, false, false)
  | .numeric .hour _ | .numeric .hour12 _ | .numeric .minute _ | .numeric .second _
  | .numeric .nanosecond _ => (false, true, false)
  | .numeric .timestamp _ => (true, true, false)
  | .numeric _ _ => (true, false, false)
  | .fixed .shortMonthName | .fixed .longMonthName | .fixed .shortWeekdayName
  | .fixed .longWeekdayName => (true, false, false)
  | .fixed .lowerAmPm | .fixed .upperAmPm | .fixed .nanosecond | .fixed .nanosecond3 | .fixed .nanosecond6
  | .fixed .nanosecond9 | .fixed .nanosecond3NoDot | .fixed .nanosecond6NoDot
  | .fixed .nanosecond9NoDot => (false, true, false)
  | .fixed .rfc2822 | .fixed .rfc3339 => (true, true, true)
  | .fixed _ => (false, false, true)
  | .error => (true, true, true)

/-- what a value of the target type shows: `NaiveDate` a date, `NaiveTime` a time, `NaiveDateTime` both,
`DateTime` both and an offset -/
def targetShows : Target → Bool × Bool × Bool
  | .date => (true, false, false)
  | .time => (false, true, false)
  | .naive => (true, true, false)
  | .zoned => (true, true, true)

/-- the target type has everything the item needs (otherwise `format` fails with `fmt::Error`) -/
def showsFor (t : Target) (it : Item) : Bool :=
  (!(itemNeeds it).1 || (targetShows t).1) && (!(itemNeeds it).2.1 || (targetShows t).2.1) &&
    (!(itemNeeds it).2.2 || (targetShows t).2.2)

/-! ### white-space items and what follows them

A white-space item of a format reads *any* run of white space (also none), so the text that follows it
must not itself begin with white space that belongs to the next item — unless the next item's reader
skips white space anyway.  `%.f` prints nothing for a whole second, so after a white-space item it
would hand the decision to whatever follows (`%S %.f .%3f` formats 12:34:05 as `05  .000`, which the
reader takes for the fraction `.000` and then misses the literal dot: the real crate answers TOO_SHORT).
`spaceSafe` is therefore part of `Unambiguous`. -/

/-- a literal whose first character is complete (all its UTF-8 bytes are there) and is not one of the 25
white-space characters: `x`, `é`, `年` -/
def visibleLiteral : Item → Bool
  | .literal (b :: rest) => Scan.wsLen (b :: rest) == 0 && decide (Scan.charLen b ≤ (b :: rest).length)
  | _ => false

/-- items whose reader skips leading white space itself -/
def leadInsensitive : Item → Bool
  | .numeric _ _ | .space _ | .fixed .timezoneOffset | .fixed .timezoneOffsetColon => true
  | _ => false

/-- what may follow a white-space item in the part of the family that is proved: an item whose reader
skips white space anyway (numbers, offsets), a literal that starts with a non-blank character, a name,
am/pm, a fixed-width fraction item (`%.3f %.6f %.9f`: a dot first; `%3f %6f %9f`: a digit first), or the
end.  Not `%.f`: it prints nothing for a whole second, so the white space would touch whatever follows. -/
def afterSpaceOk : Item → Bool
  | .fixed .shortMonthName | .fixed .longMonthName | .fixed .shortWeekdayName | .fixed .longWeekdayName
  | .fixed .lowerAmPm | .fixed .upperAmPm => true
  | .fixed .nanosecond3 | .fixed .nanosecond6 | .fixed .nanosecond9 => true
  | .fixed .nanosecond3NoDot | .fixed .nanosecond6NoDot | .fixed .nanosecond9NoDot => true
  | it => leadInsensitive it || visibleLiteral it

def spaceSafe : List Item → Bool
  | [] => true
  | [_] => true
  | .space _ :: b :: rest => afterSpaceOk b && spaceSafe (b :: rest)
  | _ :: b :: rest => spaceSafe (b :: rest)

/-- a century without a two-digit year (and without the full year) is not a year -/
def groupUsable (y q r : Bool) : Bool := !(q && !y && !r)

/-- the item lists of the family, per target type: every item is one the reader can invert and the
target type can print (`showsFor`: no time item for a `NaiveDate`, no offset item for a naive value);
a white-space item is followed by an item whose reader skips white space itself, a name,
am/pm, a visible literal or the end (`spaceSafe`); a date-time needs a full date and a full time (and a
zone-aware one an offset or a timestamp next to them), or the instant as a timestamp alone
(`stampOnly`; a timestamp next to an incomplete set of date/time fields is outside the family) -/
def Unambiguous (is : List Item) (t : Target) : Prop :=
  (∀ it ∈ is, invertible it = true ∧ showsFor t it = true) ∧
  (separated is = true ∧ spaceSafe is = true) ∧
  groupUsable (carries is).year (carries is).yearDiv (carries is).yearMod = true ∧
  groupUsable (carries is).isoYear (carries is).isoYearDiv (carries is).isoYearMod = true ∧
  let c := carries is
  match t with
  | .date => fullDate c = true ∧ c.timestamp = false
  | .time => fullTime c = true
  | .naive => (fullDate c = true ∧ fullTime c = true) ∨ stampOnly c = true
  | .zoned => ((fullDate c = true ∧ fullTime c = true) ∧ (c.offset = true ∨ c.timestamp = true)) ∨
      stampOnly c = true

instance (is : List Item) (t : Target) : Decidable (Unambiguous is t) := by
  unfold Unambiguous; cases t <;> exact inferInstance

/-! ### what a value shows to the formatter -/

/-- date, time and offset a value shows (`DateTime` shows its local reading) -/
def shown (v : Value) : Option Date × Option Time × Option Int :=
  match v with
  | .date d => (some d, none, none)
  | .time t => (none, some t, none)
  | .naive dt => (some dt.date, some dt.time, none)
  | .zoned z =>
    match z.overflowing_naive_local with
    | .ok l => (some l.date, some l.time, some z.off)
    | .panic => (none, none, some z.off)

/-- the years a year group can carry: `%y` alone only 1970–2069 (pivot), a century only two digits
(0–9999), two-digit fields only non-negative years, a `%Y` that touches digits only 0–9999 -/
def yearExpressible (full cent mod touches : Bool) (y : Int) : Prop :=
  (full = false → cent = false → mod = true → 1970 ≤ y ∧ y ≤ 2069) ∧
  (cent = true → 0 ≤ y ∧ y ≤ 9999) ∧
  (mod = true → 0 ≤ y) ∧
  (touches = true → 0 ≤ y ∧ y ≤ 9999)

/-- offset as `%z`/`%:z` print it: whole minutes, rounded half up in magnitude -/
def roundedOffset (off : Int) : Int :=
  if off < 0 then -(((-off + 30) / 60) * 60) else ((off + 30) / 60) * 60

/-- `P` holds of the value if there is one -/
def onSome {α} (o : Option α) (P : α → Prop) : Prop :=
  match o with
  | some a => P a
  | none => True
instance {α} (o : Option α) (P : α → Prop) [∀ a, Decidable (P a)] : Decidable (onSome o P) := by
  unfold onSome; split <;> exact inferInstance
/-- the accessor does not panic and `P` holds of its result -/
def onOk {α} (r : Res α) (P : α → Prop) : Prop :=
  match r with
  | .ok a => P a
  | .panic => False
instance {α} (r : Res α) (P : α → Prop) [∀ a, Decidable (P a)] : Decidable (onOk r P) := by
  unfold onOk; split <;> exact inferInstance

instance (full cent mod touches : Bool) (y : Int) : Decidable (yearExpressible full cent mod touches y) := by
  unfold yearExpressible; exact inferInstance

/-- the shown date's year and ISO year are years the items' year groups can carry -/
def exprYears (is : List Item) (v : Value) : Prop :=
  onSome (shown v).1 fun d =>
    yearExpressible (carries is).year (carries is).yearDiv (carries is).yearMod
      (yearTouchesDigits .year is) d.year ∧
    onOk d.iso_week fun w =>
      yearExpressible (carries is).isoYear (carries is).isoYearDiv (carries is).isoYearMod
        (yearTouchesDigits .isoYear is) (IsoWeek.year w)
instance (is : List Item) (v : Value) : Decidable (exprYears is v) := by
  unfold exprYears; exact inferInstance

/-- a leap second is a second 59 with the fraction ≥ 10⁹ (what the public constructors build) -/
def exprLeap (v : Value) : Prop :=
  onSome (shown v).2.1 fun t => 1000000000 ≤ t.frac → t.secs % 60 = 59
instance (v : Value) : Decidable (exprLeap v) := by unfold exprLeap; exact inferInstance

/-- the leap clause of `expressible`: it concerns formats that print the wall clock's second.  A
timestamp-only format (`stampOnly`: `%s`, `%s %z` …) prints the instant's second count, in which a leap
second is its second :59 whatever the offset does to the local reading (a UTC leap second 23:59:60 seen at
`+00:00:30` reads locally `00:00:29` + leap fraction — no public constructor builds that local time, but
`DateTime` shows it): such a value is expressible by a timestamp-only format, and
`truncate_to_precision` predicts the instant at whole seconds for it (second review, G6) -/
def exprLeapFor (is : List Item) (v : Value) : Prop := stampOnly (carries is) = true ∨ exprLeap v
instance (is : List Item) (v : Value) : Decidable (exprLeapFor is v) := by
  unfold exprLeapFor; exact inferInstance

/-- the printed (rounded) offset must itself be an offset -/
def exprOffset (is : List Item) (v : Value) : Prop :=
  onSome (shown v).2.2 fun o =>
    (carries is).offset = true → -86400 < roundedOffset o ∧ roundedOffset o < 86400
instance (is : List Item) (v : Value) : Decidable (exprOffset is v) := by
  unfold exprOffset; exact inferInstance

/-- a timestamp printed next to date/time fields pins the exact second and offset (without an offset
item the reader assumes UTC, so the local fields must be the UTC ones) -/
def exprStamp (is : List Item) (v : Value) : Prop :=
  (carries is).timestamp = true → fullDate (carries is) = true → fullTime (carries is) = true →
    (onSome (shown v).2.2 fun o => if (carries is).offset = true then o % 60 = 0 else o = 0) ∧
    (onSome (shown v).2.1 fun t => (carries is).second = false → t.secs % 60 = 0)
instance (is : List Item) (v : Value) : Decidable (exprStamp is v) := by
  unfold exprStamp; exact inferInstance

/-- digits a fraction item prints (`%.f` prints the exact fraction) -/
def itemFracDigits : Item → Option Nat
  | .numeric .nanosecond _ | .fixed .nanosecond | .fixed .nanosecond9 | .fixed .nanosecond9NoDot => some 9
  | .fixed .nanosecond6 | .fixed .nanosecond6NoDot => some 6
  | .fixed .nanosecond3 | .fixed .nanosecond3NoDot => some 3
  | _ => none

/-- number of fraction digits the items print: 9 for `%f`, `%.f` (exact), `%.9f`, `%9f`; 6; 3; 0 -/
def fracDigits (is : List Item) : Nat :=
  is.foldl (fun acc it => max acc ((itemFracDigits it).getD 0)) 0

/-- the fraction cut to `k` digits, in nanoseconds -/
def cutFrac (frac : Int) (k : Nat) : Int :=
  frac % 1000000000 / (10 ^ (9 - k) : Nat) * (10 ^ (9 - k) : Nat)

/-- fraction items of different precision in one format all describe the same fraction (otherwise
the reader gets contradicting nanosecond fields) -/
def exprFrac (is : List Item) (v : Value) : Prop :=
  onSome (shown v).2.1 fun t =>
    ∀ it ∈ is, onSome (itemFracDigits it) fun k => cutFrac t.frac k = cutFrac t.frac (fracDigits is)
instance (is : List Item) (v : Value) : Decidable (exprFrac is v) := by
  unfold exprFrac; exact inferInstance

/-- the value lies in the range the format's reader widths can carry -/
def expressible (is : List Item) (v : Value) : Prop :=
  exprYears is v ∧ exprLeapFor is v ∧ exprOffset is v ∧ exprStamp is v ∧ exprFrac is v
instance (is : List Item) (v : Value) : Decidable (expressible is v) := by
  unfold expressible; exact inferInstance

/-! ### the precision a format prints -/

/-- a time cut to what the items print: without `%S` the second (and a leap second) is dropped;
the fraction is cut to the printed digits; a printed leap second (`60`) is kept -/
def truncTime (is : List Item) (t : Time) : Time :=
  let c := carries is
  if c.second = false then ⟨t.secs / 60 * 60, 0⟩
  else
    let ns := cutFrac t.frac (fracDigits is)
    ⟨t.secs, if t.frac ≥ 1000000000 then 1000000000 + ns else ns⟩

/-- the date of a wall clock lies in the range of `NaiveDate` (a `DateTime` near the ends of the range can
have a wall clock one day outside it: it is printed, with year ±262143/4, but cannot be read) -/
def wallInRange (d : Date) : Bool :=
  decide (Chrono.Extracted.MIN_YEAR ≤ d.year) && decide (d.year ≤ Chrono.Extracted.MAX_YEAR)

/-- the value cut to the precision the format prints; `none` where the cut value does not exist
(a wall clock outside the range of `NaiveDate`, or a local reading that leaves the supported range at the
rounded offset) -/
def truncate_to_precision (is : List Item) (v : Value) : Option Value :=
  let c := carries is
  let fields := fullDate c && fullTime c
  match v with
  | .date d => some (.date d)
  | .time t => some (.time (truncTime is t))
  | .naive dt =>
    if fields then some (.naive ⟨dt.date, truncTime is dt.time⟩)
    else some (.naive ⟨dt.date, ⟨dt.time.secs, 0⟩⟩)                    -- timestamp only: whole seconds
  | .zoned z =>
    let off' := if c.offset then roundedOffset z.off else 0
    if fields then
      match z.overflowing_naive_local with
      | .ok l =>
        -- the printed wall clock must be a `NaiveDateTime` (the reader builds one from the fields) …
        if wallInRange l.date then
          -- … and, put back at the printed offset, an instant of the supported range
          (match Zoned.from_local_datetime off' ⟨l.date, truncTime is l.time⟩ with
           | .ok (some z') => some (.zoned z')
           | _ => none)
        else none
      | .panic => none
    else
      -- timestamp only: the instant at whole seconds, at the printed offset (UTC without an offset
      -- item) — provided the wall clock at that offset is still in the supported range
      let z' : Zoned := ⟨⟨z.utc.date, ⟨z.utc.time.secs, 0⟩⟩, off'⟩
      match z'.naive_local with
      | .ok _ => some (.zoned z')
      | .panic => none

/-! ### the fields of a value, item by item

What the value shows to the formatter is a context (date, time, offset with its name).  `fieldCall` is the
setter call the *reader* has to make for an item so that the record receives exactly the item's field
of the value: the number the documentation assigns to the specifier, the month / weekday / half of the
day a name stands for, the fraction cut to the printed digits, the offset as printed (rounded to the
minute).  `item_inverts` (Props/C13) says the reader makes exactly this call. -/

structure Ctx where
  date : Option Date
  time : Option Time
  off : Option (List Nat × Int)

/-- the context a value shows (`DateTime`: its local reading, the offset's `Display` as name) -/
def ctxOf (v : Value) : Ctx :=
  let s := shown v
  ⟨s.1, s.2.1, s.2.2.map fun o => (Format.fixedOffsetName o, o)⟩

/-- the number a numeric item denotes for the context; `none` where the context lacks the field or
an accessor fails -/
def numVal (c : Ctx) (n : Numeric) : Option Int :=
  let iso (f : Int → Int) : Option Int :=
    c.date.bind fun d => match d.iso_week with | .ok w => some (f w) | .panic => none
  let mon (f : Nat → Int) : Option Int :=
    c.date.bind fun d => match d.month with | .ok m => some (f m) | .panic => none
  match n with
  | .year => c.date.map (·.year)
  | .yearDiv100 => c.date.map fun d => d.year / 100
  | .yearMod100 => c.date.map fun d => d.year % 100
  | .isoYear => iso IsoWeek.year
  | .isoYearDiv100 => iso fun w => IsoWeek.year w / 100
  | .isoYearMod100 => iso fun w => IsoWeek.year w % 100
  | .quarter => mon Format.quarter
  | .month => mon fun m => m
  | .day => c.date.bind fun d => match d.day with | .ok x => some (x : Int) | .panic => none
  | .weekFromSun => c.date.map fun d => Format.weeks_from d .sun
  | .weekFromMon => c.date.map fun d => Format.weeks_from d .mon
  | .isoWeek => iso IsoWeek.week
  | .numDaysFromSun => c.date.map fun d => (d.weekday.num_days_from_sunday : Int)
  | .weekdayFromMon => c.date.map fun d => (d.weekday.number_from_monday : Int)
  | .ordinal => c.date.map (·.ordinal)
  | .hour => c.time.map (·.hour)
  | .hour12 => c.time.map fun t => t.hour12.2
  | .minute => c.time.map (·.minute)
  | .second => c.time.map fun t => t.second + t.nanosecond / 1000000000
  | .nanosecond => c.time.map fun t => t.nanosecond % 1000000000
  | .timestamp =>
    match c.date, c.time with
    | some d, some t =>
      (match NaiveDT.timestamp ⟨d, t⟩ with
       | .ok ts => some (ts - (c.off.map (·.2)).getD 0)
       | .panic => none)
    | _, _ => none

/-- the setter call the reader has to make for an item -/
def fieldCall (c : Ctx) : Item → Option (Parsed → PRes Parsed)
  | .literal _ | .space _ => some .ok
  | .numeric n _ => (numVal c n).map fun v p => (Parse.numericSpec n).2.2 p v
  | .fixed .shortMonthName | .fixed .longMonthName =>
    (numVal c .month).map fun m p => p.set_month m
  | .fixed .shortWeekdayName | .fixed .longWeekdayName =>
    c.date.map fun d p => p.set_weekday d.weekday
  | .fixed .lowerAmPm | .fixed .upperAmPm => c.time.map fun t p => p.set_ampm t.hour12.1
  | .fixed .nanosecond =>
    c.time.map fun t p =>
      if t.nanosecond % 1000000000 = 0 then .ok p else p.set_nanosecond (t.nanosecond % 1000000000)
  | .fixed .nanosecond3 | .fixed .nanosecond3NoDot =>
    c.time.map fun t p => p.set_nanosecond (t.nanosecond / 1000000 % 1000 * 1000000)
  | .fixed .nanosecond6 | .fixed .nanosecond6NoDot =>
    c.time.map fun t p => p.set_nanosecond (t.nanosecond / 1000 % 1000000 * 1000)
  | .fixed .nanosecond9 | .fixed .nanosecond9NoDot =>
    c.time.map fun t p => p.set_nanosecond (t.nanosecond % 1000000000)
  | .fixed .timezoneOffset | .fixed .timezoneOffsetColon =>
    c.off.map fun o p => p.set_offset (roundedOffset o.2)
  | _ => none

/-- what may follow an item's rendering for the reader to stop where the rendering ends: nothing is
required after literals, names, am/pm, offsets, the one-digit and the dot-less fraction items; a
greedy number needs the end of the text or a non-digit, unless it is zero-padded to the reader's
width (for `%Y`/`%G`: a year 0–9999); a white-space item needs a non-blank; `%.f` also needs that no
dot follows -/
def RestOk (c : Ctx) : Item → List Nat → Prop
  | .literal _, _ => True
  | .space _, rest => Scan.wsLen rest = 0
  | .numeric .quarter _, _ | .numeric .numDaysFromSun _, _ | .numeric .weekdayFromMon _, _ => True
  | .numeric .timestamp _, rest => startsNonDigit rest = true ∨ rest = []
  | .numeric .year pad, rest =>
    (startsNonDigit rest = true ∨ rest = []) ∨ (pad = .zero ∧ ∀ v, numVal c .year = some v → 0 ≤ v ∧ v ≤ 9999)
  | .numeric .isoYear pad, rest =>
    (startsNonDigit rest = true ∨ rest = []) ∨ (pad = .zero ∧ ∀ v, numVal c .isoYear = some v → 0 ≤ v ∧ v ≤ 9999)
  | .numeric _ pad, rest => (startsNonDigit rest = true ∨ rest = []) ∨ pad = .zero
  | .fixed .nanosecond, rest => (startsNonDigit rest = true ∨ rest = []) ∧ ∀ t, rest ≠ 46 :: t
  | .fixed .nanosecond3, rest | .fixed .nanosecond6, rest | .fixed .nanosecond9, rest =>
    startsNonDigit rest = true ∨ rest = []
  | _, _ => True

/-- ASCII white space (what `%t`, `%n` and blanks in a format string are) -/
def asciiWs (b : Nat) : Bool := (decide (9 ≤ b) && decide (b ≤ 13)) || b == 32

/-- the bytes are a run of white-space characters (UTF-8 encodings of the 25 `char::is_whitespace`
characters, ASCII or not): what a white-space item of a format string holds -/
def wsRunAux : Nat → List Nat → Bool
  | _, [] => true
  | 0, _ :: _ => false
  | fuel + 1, b :: rest =>
    let n := Scan.wsLen (b :: rest)
    n != 0 && wsRunAux fuel ((b :: rest).drop n)
def wsRun (s : List Nat) : Bool := wsRunAux s.length s

/-- the invertible items for which `item_inverts` is proved: all of them except the `Z`-printing offset
items (no specifier produces those); a white-space item holds a run of white-space characters -/
def provedItem : Item → Bool
  | .literal _ => true
  | .space s => wsRun s
  | .numeric _ _ => true
  | .fixed .shortMonthName | .fixed .longMonthName | .fixed .shortWeekdayName | .fixed .longWeekdayName
  | .fixed .lowerAmPm | .fixed .upperAmPm | .fixed .nanosecond | .fixed .nanosecond3 | .fixed .nanosecond6
  | .fixed .nanosecond9 | .fixed .nanosecond3NoDot | .fixed .nanosecond6NoDot | .fixed .nanosecond9NoDot
  | .fixed .timezoneOffset | .fixed .timezoneOffsetColon => true
  | _ => false

/-- the item can carry its field of the context at all: a century is read with two digits -/
def ItemExpr (c : Ctx) : Item → Prop
  | .numeric .yearDiv100 _ => ∀ v, numVal c .year = some v → 0 ≤ v ∧ v ≤ 9999
  | .numeric .isoYearDiv100 _ => ∀ v, numVal c .isoYear = some v → 0 ≤ v ∧ v ≤ 9999
  | _ => True

end Chrono.Spec
