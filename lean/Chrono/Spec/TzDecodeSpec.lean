/-
  Specification side of C16, part 3: what the bytes of a TZif file SAY, field by field, at the byte
  offsets the six header counts determine (RFC 8536 §3.2) — stated without any reader function
  (`field` = `drop`/`take`, `beNat` = big-endian value, `asI32`/`asI64` = two's complement).
-/
import Chrono.Spec.TzSpec
namespace Chrono.Spec.Tz
open Chrono Chrono.M.Tz

/-- the version field of the FIRST header: byte 4 of the file -/
def firstVersion (bytes : List Nat) : Option Version := versionOf ((bytes.drop 4).take 1)

/-- the version field of the SECOND header: byte 4 of the header that follows the first header and
the data block its counts announce (32-bit times) -/
def secondVersion (bytes : List Nat) : Option Version :=
  versionOf ((bytes.drop (announcedLen 4 bytes + 4)).take 1)

/-- the `n` bytes of `l` from byte offset `off` -/
def field (l : List Nat) (off n : Nat) : List Nat := (l.drop off).take n

/-- the `i`-th record of `n` bytes of an array -/
def record (arr : List Nat) (n i : Nat) : List Nat := field arr (i * n) n

/-- a time field as the reader of a block whose header says version `v` takes it: the whole field
as a big-endian two's-complement number for versions 2 and 3; ITS FIRST FOUR BYTES ONLY for version 1
(for the 4-byte fields of a first block that is the whole field; an 8-byte field under a header
that says version 1 — where it would be the HIGH half — no longer occurs in an accepted file since the
repair of finding F35: `Props.C16.accepted_versions_agree`, `inconsistent_versions_accepted_pinned_before_F35`) -/
def fieldTime (v : Version) (chunk : List Nat) : Int :=
  match v with
  | .V1 => asI32 (beNat (chunk.take 4))
  | _ => asI64 (beNat chunk)

/-! byte offsets inside a block that starts (with its 44-byte header) at the start of `blk`;
`ts` = width of a time field (4 in the first block, 8 in the second) -/
def offIdx (ts : Nat) (blk : List Nat) : Nat := 44 + hdrCount blk 3 * ts
def offTypes (ts : Nat) (blk : List Nat) : Nat := offIdx ts blk + hdrCount blk 3
def offNames (ts : Nat) (blk : List Nat) : Nat := offTypes ts blk + hdrCount blk 4 * 6
def offLeaps (ts : Nat) (blk : List Nat) : Nat := offNames ts blk + hdrCount blk 5

/-- the five arrays of a block: transition times, transition types, local time type records,
designations, leap-second records -/
def timesArr (ts : Nat) (blk : List Nat) : List Nat := field blk 44 (hdrCount blk 3 * ts)
def idxArr (ts : Nat) (blk : List Nat) : List Nat := field blk (offIdx ts blk) (hdrCount blk 3)
def typesArr (ts : Nat) (blk : List Nat) : List Nat := field blk (offTypes ts blk) (hdrCount blk 4 * 6)
def namesArr (ts : Nat) (blk : List Nat) : List Nat := field blk (offNames ts blk) (hdrCount blk 5)
def leapsArr (ts : Nat) (blk : List Nat) : List Nat :=
  field blk (offLeaps ts blk) (hdrCount blk 2 * (ts + 4))

/-- transition `i`: the `i`-th time field and the `i`-th type-index byte -/
def decTransition (ts : Nat) (v : Version) (blk : List Nat) (i : Nat) : Transition :=
  ⟨fieldTime v (record (timesArr ts blk) ts i), (idxArr ts blk).getD i 0⟩

/-- the local time type of one 6-byte record: `utoff` (bytes 0–3), `isdst` (byte 4), designation
starting at index `desigidx` (byte 5) of the designation array, up to its NUL -/
def decTypeRec (names : List Nat) (r : List Nat) : Ltt :=
  ⟨asI32 (beNat (r.take 4)), r.getD 4 0 == 1, nameAt names (r.getD 5 0)⟩

def decType (ts : Nat) (blk : List Nat) (i : Nat) : Ltt :=
  decTypeRec (namesArr ts blk) (record (typesArr ts blk) 6 i)

/-- leap-second record `i`: a time field followed by a 4-byte correction -/
def decLeapRec (ts : Nat) (v : Version) (r : List Nat) : LeapSecond :=
  ⟨fieldTime v (r.take ts), asI32 (beNat (r.drop ts))⟩

def decLeap (ts : Nat) (v : Version) (blk : List Nat) (i : Nat) : LeapSecond :=
  decLeapRec ts v (record (leapsArr ts blk) (ts + 4) i)

/-- the zone a block SAYS: `timecnt` transitions, `typecnt` types, `leapcnt` leap records -/
def decodeBlock (ts : Nat) (v : Version) (blk : List Nat) (rule : Option Rule) : Zone :=
  { transitions := (List.range (hdrCount blk 3)).map (decTransition ts v blk)
    types := (List.range (hdrCount blk 4)).map (decType ts blk)
    leaps := (List.range (hdrCount blk 2)).map (decLeap ts v blk)
    rule := rule }

/-- what the type records of an accepted block satisfy besides: `isdst` is 0 or 1, `desigidx` lies
inside the designation array and a NUL follows it there -/
def TypeRecsOk (ts : Nat) (blk : List Nat) : Prop :=
  ∀ i, i < hdrCount blk 4 →
    ((record (typesArr ts blk) 6 i).getD 4 0 = 0 ∨ (record (typesArr ts blk) 6 i).getD 4 0 = 1)
      ∧ (record (typesArr ts blk) 6 i).getD 5 0 < hdrCount blk 5
      ∧ 0 ∈ (namesArr ts blk).drop ((record (typesArr ts blk) 6 i).getD 5 0)

end Chrono.Spec.Tz
