/-
  Specification side for the C07 audit gap G1: what a *date-time* difference would be if it followed
  the same extended-line reading as the time-of-day difference (`Spec.diffLeap`), and the two error
  terms that describe what `NaiveDateTime::signed_duration_since` returns instead.

  `Spec.diffLeap a b` places both times of day in ONE day: the other operand's leap second counts
  iff it follows an earlier second *of the day*.  For date-times the same rule reads: the other
  operand's leap second counts iff it follows an earlier second *of the time line* (`instSecs`).
  The implementation adds whole days to the time-of-day difference, i.e. it keeps the
  second-of-the-day comparison; the two readings differ exactly when the dates differ and the order
  of the seconds of the day is the reverse of the order of the dates (`crossErr`).
-/
import Chrono.Spec.InstantSpec
namespace Chrono.Spec
open Chrono.M

/-- position of `x` on the line of all date-times that holds exactly the leap seconds of the two
operands: `o`'s leap second lies before `x` iff it follows an earlier second of the time line -/
def dtLinePos (x o : NaiveDT) : Int :=
  instNs x + (if o.time.frac ≥ 1000000000 ∧ instSecs o < instSecs x then 1000000000 else 0)

/-- `a − b` in ns by the extended-line reading of date-times -/
def dtDiffLine (a b : NaiveDT) : Int := dtLinePos a b - dtLinePos b a

/-- what the day-plus-time-of-day decomposition counts for `o`'s leap second in the position of `x`,
minus what the extended line counts (0, +10⁹ or −10⁹) -/
def crossErr (x o : NaiveDT) : Int :=
  (if o.time.frac ≥ 1000000000 ∧ o.time.secs < x.time.secs then 1000000000 else 0) -
  (if o.time.frac ≥ 1000000000 ∧ instSecs o < instSecs x then 1000000000 else 0)

/-- the error of "difference after addition" for a time of day `t` and a step of `δ` ns: a leap-second
operand that is left *backwards* is counted one second too far when the result's second of the day
is later than the operand's (possible only after a day boundary was crossed); one that is skipped
*forwards* is counted one second too short when the result's second of the day is not later than
the operand's (again only across a day boundary); otherwise 0 -/
def diffAddErr (t : Time) (δ : Int) : Int :=
  if t.frac ≥ 1000000000 ∧ pos t + δ < (t.secs + 1) * 1000000000 ∧ t.secs < (addLeap t δ).1.secs
  then 1000000000
  else if t.frac ≥ 1000000000 ∧ (t.secs + 2) * 1000000000 ≤ pos t + δ ∧
      (addLeap t δ).1.secs ≤ t.secs
  then -1000000000 else 0

/-- (audit2 L4) the cross term written WITHOUT reference to what the implementation counts: −1 s when `o` is a
leap second on an EARLIER date whose second of the day is not earlier than `x`'s (the line counts `o`'s leap second
before `x`, the day-plus-time-of-day decomposition does not), +1 s when `o` is a leap second on a LATER date whose
second of the day is earlier than `x`'s (the decomposition counts it, the line does not), otherwise 0.
`crossErr` above is "implementation's count − line's count" by definition; that the two agree is a theorem
(`Proofs.TimeClosure.crossCase_eq`, needs both times valid). -/
def crossCase (x o : NaiveDT) : Int :=
  if o.time.frac ≥ 1000000000 ∧ dayNumOf o.date < dayNumOf x.date ∧ x.time.secs ≤ o.time.secs
  then -1000000000
  else if o.time.frac ≥ 1000000000 ∧ dayNumOf x.date < dayNumOf o.date ∧ o.time.secs < x.time.secs
  then 1000000000 else 0

end Chrono.Spec
