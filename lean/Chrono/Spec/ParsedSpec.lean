/-
  Specification side for C14: what it means for a date / time / date-time to *agree* with the
  supplied fields of a `Parsed` record, which field sets are *sufficient* (the documented
  combinations), and when a year group is *determinate*.  Nothing here looks at the resolver's
  branch structure (combination order, verifier closures).

  A date is given as `(y, o)` — the `o`-th day of year `y` — and its fields are read off the
  calendar specification (Spec/Calendar.lean): month/day of the ordinal, weekday of the day number,
  week numbers counted from the first Sunday/Monday.  The three ISO-week fields are read through the
  date's own `iso_week` accessor (its agreement with the calendar is C01's ISO-week theorem).
-/
import Chrono.Model.ParsedCore
import Chrono.Model.DateTime
import Chrono.Spec.DateSpec
import Chrono.Spec.TimeSpec
namespace Chrono.Spec.Fields
open Chrono.M Chrono.Extracted Chrono.Spec

/-- a supplied field has the value `v` -/
def optIs (o : Option Int) (v : Int) : Prop := ∀ x, o = some x → x = v

/-- century and two-digit year: only non-negative years have them -/
def centIs (div mod : Option Int) (y : Int) : Prop :=
  (∀ x, div = some x → 0 ≤ y ∧ x = y / 100) ∧ (∀ x, mod = some x → 0 ≤ y ∧ x = y % 100)

/-- week number of the `o`-th day of year `y` when weeks start on weekday `start` (0 = Monday,
6 = Sunday): the days before the first such weekday are week 0 -/
def weekNo (y : Int) (o : Nat) (start : Int) : Int :=
  ((o : Int) + 6 - (weekdayOf (dayNumYo y o) - start) % 7) / 7

/-- quarter of a month -/
def quarterOfMonth (m : Nat) : Int := ((m : Int) + 2) / 3

/-- every field holds a value of its Rust type (`i32`, `u32`, `i64`) -/
def optIn (o : Option Int) (lo hi : Int) : Prop := ∀ x, o = some x → lo ≤ x ∧ x ≤ hi
def InType (p : Parsed) : Prop :=
  optIn p.year (-2147483648) 2147483647 ∧ optIn p.year_div_100 (-2147483648) 2147483647 ∧
  optIn p.year_mod_100 (-2147483648) 2147483647 ∧ optIn p.isoyear (-2147483648) 2147483647 ∧
  optIn p.isoyear_div_100 (-2147483648) 2147483647 ∧ optIn p.isoyear_mod_100 (-2147483648) 2147483647 ∧
  optIn p.quarter 0 4294967295 ∧ optIn p.month 0 4294967295 ∧ optIn p.week_from_sun 0 4294967295 ∧
  optIn p.week_from_mon 0 4294967295 ∧ optIn p.isoweek 0 4294967295 ∧ optIn p.ordinal 0 4294967295 ∧
  optIn p.day 0 4294967295 ∧ optIn p.hour_div_12 0 4294967295 ∧ optIn p.hour_mod_12 0 4294967295 ∧
  optIn p.minute 0 4294967295 ∧ optIn p.second 0 4294967295 ∧ optIn p.nanosecond 0 4294967295 ∧
  optIn p.timestamp (-9223372036854775808) 9223372036854775807 ∧
  optIn p.offset (-2147483648) 2147483647

/-- the ISO-week fields agree with the date's ISO week -/
def IsoIs (p : Parsed) (d : Date) : Prop :=
  ∃ w, d.iso_week = .ok w ∧ optIs p.isoyear (IsoWeek.year w) ∧
    centIs p.isoyear_div_100 p.isoyear_mod_100 (IsoWeek.year w) ∧ optIs p.isoweek (IsoWeek.week w)

/-- the `o`-th day of year `y` agrees with every supplied date field of `p` -/
def DateAgrees (p : Parsed) (y : Int) (o : Nat) : Prop :=
  optIs p.year y ∧ centIs p.year_div_100 p.year_mod_100 y ∧
  optIs p.quarter (quarterOfMonth (monthOfYo y o)) ∧ optIs p.month (monthOfYo y o) ∧
  optIs p.week_from_sun (weekNo y o 6) ∧ optIs p.week_from_mon (weekNo y o 0) ∧
  (∀ w, p.weekday = some w → (w.toNat : Int) = weekdayOf (dayNumYo y o)) ∧
  optIs p.ordinal o ∧ optIs p.day (dayOfYo y o) ∧ IsoIs p (dateOfYo y o)

/-- the second field: `60` denotes the leap second after second 59; an absent field is read as 0 -/
def secondIs (s : Option Int) (t : Time) : Prop :=
  (∀ x, s = some x →
    if x = 60 then secondOf t = 59 ∧ 1000000000 ≤ t.frac else secondOf t = x ∧ t.frac < 1000000000) ∧
  (s = none → secondOf t = 0 ∧ t.frac < 1000000000)

/-- the nanosecond field; an absent field is read as 0 -/
def nanoIs (n : Option Int) (t : Time) : Prop :=
  (∀ x, n = some x → t.frac % 1000000000 = x) ∧ (n = none → t.frac % 1000000000 = 0)

/-- the time of day `t` agrees with every supplied time field of `p` (and has zero second /
nanosecond where that field is not supplied, as documented) -/
def TimeAgrees (p : Parsed) (t : Time) : Prop :=
  optIs p.hour_div_12 (hourOf t / 12) ∧ optIs p.hour_mod_12 (hourOf t % 12) ∧
  optIs p.minute (minuteOf t) ∧ secondIs p.second t ∧ nanoIs p.nanosecond t

/-- the documented sufficient combination for a time: hour (both halves), minute, and the second
whenever a nanosecond is given -/
def TimeSufficient (p : Parsed) : Prop :=
  p.hour_div_12 ≠ none ∧ p.hour_mod_12 ≠ none ∧ p.minute ≠ none ∧
  (p.nanosecond ≠ none → p.second ≠ none)

/-- every supplied time field is inside the range its setter accepts -/
def TimeInRange (p : Parsed) : Prop :=
  optIn p.hour_div_12 0 1 ∧ optIn p.hour_mod_12 0 11 ∧ optIn p.minute 0 59 ∧ optIn p.second 0 60 ∧
  optIn p.nanosecond 0 999999999

/-- a year group (full year, century, two-digit year) that is not "century without two-digit
year" (documented as not enough) -/
def GroupUsable (y q r : Option Int) : Prop := ¬ (y = none ∧ q ≠ none ∧ r = none)
/-- a year group from which a year can be read -/
def GroupHasYear (y r : Option Int) : Prop := y ≠ none ∨ r ≠ none

/-- the documented sufficient combinations for a date -/
def DateSufficient (p : Parsed) : Prop :=
  GroupUsable p.year p.year_div_100 p.year_mod_100 ∧
  GroupUsable p.isoyear p.isoyear_div_100 p.isoyear_mod_100 ∧
  ((GroupHasYear p.year p.year_mod_100 ∧
      ((p.month ≠ none ∧ p.day ≠ none) ∨ p.ordinal ≠ none ∨
       (p.week_from_sun ≠ none ∧ p.weekday ≠ none) ∨ (p.week_from_mon ≠ none ∧ p.weekday ≠ none))) ∨
   (GroupHasYear p.isoyear p.isoyear_mod_100 ∧ p.isoweek ≠ none ∧ p.weekday ≠ none))

/-- a year group whose supplied members do not contradict each other and are in range: what
`resolve_year` needs to return a year without `IMPOSSIBLE` / `OUT_OF_RANGE` -/
def GroupCoherent (y q r : Option Int) : Prop :=
  (∀ rv, r = some rv → 0 ≤ rv ∧ rv ≤ 99) ∧
  (∀ yv, y = some yv → (q ≠ none ∨ r ≠ none) → 0 ≤ yv ∧ optIs q (yv / 100) ∧ optIs r (yv % 100)) ∧
  (y = none → ∀ qv rv, q = some qv → r = some rv → 0 ≤ qv ∧ qv * 100 + rv ≤ 2147483647)

/-- a year group is determinate for the real year `yr`: empty, or the full year, or century plus
two-digit year, or the two-digit year alone read with the 1970–2069 pivot -/
def GroupDeterminate (y q r : Option Int) (yr : Int) : Prop :=
  GroupUsable y q r ∧ (y = none → q = none → r ≠ none → 1970 ≤ yr ∧ yr ≤ 2069)

/-- the supplied timestamp is that of the local reading `dt` at `offset`, or — when `dt` is a leap
second — one more (a timestamp cannot say which of the two seconds is meant) -/
def timestampIs (ts : Option Int) (dt : NaiveDT) (offset : Int) : Prop :=
  ∀ g, ts = some g →
    g = instSecsLocal dt - offset ∨ (1000000000 ≤ dt.time.frac ∧ g = instSecsLocal dt - offset + 1)
where
  /-- whole seconds since the epoch of the reading itself -/
  instSecsLocal (dt : NaiveDT) : Int :=
    (dayNumYo dt.date.year dt.date.ordinal - 719163) * 86400 + dt.time.secs

end Chrono.Spec.Fields
