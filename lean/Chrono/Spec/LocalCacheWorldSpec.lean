/-
  Specification side for histories in which /etc/localtime changes (C18, second review G2).
  Written without reference to `stepW`: how the world, TZ and the clock evolve along a history of
  `StepW`, and which mtimes of /etc/localtime the history has shown.
-/
import Chrono.Model.LocalCacheWorld
import Chrono.Spec.LocalCacheSpec
namespace Chrono.Spec.LocalCache
open Chrono.M.LocalCache

/-- "/etc/localtime" now reads as `f`, its link has mtime `m`, the system reports zone name `n` -/
def relinked (W : World) (m : Option Nat) (f : FileState) (n : Option Bytes) : World :=
  { fs := fun p => if p = etcLocaltime then f else W.fs p, rule := W.rule, sysName := n, ltMtime := m }

/-- the world after a history -/
def worldAfter (W : World) : List StepW → World
  | [] => W
  | .base _ :: xs => worldAfter W xs
  | .setMtime m :: xs => worldAfter { W with ltMtime := m } xs
  | .replaceLocaltime m f n :: xs => worldAfter (relinked W m f n) xs

/-- the mtime a step gives /etc/localtime (`none`: the step is not a change of that file) -/
def mtimeSetBy : StepW → Option (Option Nat)
  | .base _ => none
  | .setMtime m => some m
  | .replaceLocaltime m _ _ => some m

/-- every mtime /etc/localtime has had during a history, the initial one first -/
def mtimesOf (W : World) (h : List StepW) : List (Option Nat) := W.ltMtime :: h.filterMap mtimeSetBy

/-- the process's own steps of a history -/
def baseSteps : List StepW → List Step
  | [] => []
  | .base x :: xs => x :: baseSteps xs
  | _ :: xs => baseSteps xs

end Chrono.Spec.LocalCache
