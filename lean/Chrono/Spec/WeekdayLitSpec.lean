/-
  Specification side for C19, table-independent part: the English names written out literally
  (nothing here mentions `Chrono.Extracted`), the expected text forms of a weekday set.
-/
import Chrono.Spec.WeekdaySpec

namespace Chrono.Spec
open Chrono.M

/-- the long English weekday names, lower case -/
def weekdayLongLit : Weekday → List Nat
  | .mon => asciiBytes "monday" | .tue => asciiBytes "tuesday" | .wed => asciiBytes "wednesday"
  | .thu => asciiBytes "thursday" | .fri => asciiBytes "friday" | .sat => asciiBytes "saturday"
  | .sun => asciiBytes "sunday"

/-- the long English month names, lower case -/
def monthLongLit : Month → List Nat
  | .jan => asciiBytes "january" | .feb => asciiBytes "february" | .mar => asciiBytes "march"
  | .apr => asciiBytes "april" | .may => asciiBytes "may" | .jun => asciiBytes "june"
  | .jul => asciiBytes "july" | .aug => asciiBytes "august" | .sep => asciiBytes "september"
  | .oct => asciiBytes "october" | .nov => asciiBytes "november" | .dec => asciiBytes "december"

/-- the three-letter abbreviation: the first three letters of the long name -/
def weekdayShortLit (w : Weekday) : List Nat := (weekdayLongLit w).take 3
def monthShortLit (m : Month) : List Nat := (monthLongLit m).take 3

/-- first letter in upper case (ASCII) -/
def capitalize : List Nat → List Nat
  | [] => []
  | c :: cs => (c - 32) :: cs

/-- members of `s` in week order, Monday first -/
def members (s : Nat) : List Weekday := Weekday.all.filter (mem s)

/-- `a, b, c` -/
def commaSep : List (List Nat) → List Nat
  | [] => []
  | [x] => x
  | x :: xs => x ++ [44, 32] ++ commaSep xs

/-- expected `Display` of a weekday set: `[Mon, Fri, Sun]` -/
def setDisplay (s : Nat) : List Nat :=
  [91] ++ commaSep ((members s).map (fun d => capitalize (weekdayShortLit d))) ++ [93]

/-- expected `Debug` of a weekday set: `WeekdaySet(` + one character per weekday, Sunday first,
`1` for a member and `0` otherwise + `)` -/
def setDebug (s : Nat) : List Nat :=
  asciiBytes "WeekdaySet(" ++ Weekday.all.reverse.map (fun d => if mem s d then 49 else 48) ++ [41]

/-- does `pat` occur in `t` as a contiguous block? -/
def hasInfix (pat : List Nat) : List Nat → Bool
  | [] => pat.isEmpty
  | c :: cs => pat.isPrefixOf (c :: cs) || hasInfix pat cs

/-- reading a set back from its `Display` text: the weekdays whose abbreviation occurs in it -/
def wordOfDisplay (t : List Nat) : Nat :=
  WeekdaySet.from_list (Weekday.all.filter (fun d => hasInfix (capitalize (weekdayShortLit d)) t))

/-- reading a set back from its `Debug` text: the seven binary digits after `WeekdaySet(` -/
def wordOfDebug (t : List Nat) : Nat :=
  ((t.drop 11).take 7).foldl (fun acc c => 2 * acc + (c - 48)) 0

end Chrono.Spec
