/-
  The Rust `str` / `[u8]` index expressions as `Res`-valued primitives (property C15, byte level).
  `&s[k..]` and `&s[..k]` on a `&str` panic unless `k ≤ s.len()` and `s.is_char_boundary(k)`
  (`core::str::traits`, "byte index is not a char boundary" / "out of bounds"); `s.as_bytes()[..k]` is a
  slice of BYTES and panics only for `k > len`.  `evalSlices` replays the slice record of a run of the
  recording scanners (Model/Rfc3339Slices.lean, Model/ScanSlices.lean): the run panics iff one of the
  recorded index expressions does.
-/
import Chrono.Spec.Utf8Spec
import Chrono.Model.ScanSlices
namespace Chrono.Spec.StrSlice
open Chrono.M Chrono.Spec.Utf8 Chrono.M.Rfc3339Slices

/-- `&s[k..]` on a `&str` -/
def sliceFrom (s : List Nat) (k : Nat) : Res (List Nat) :=
  if k ≤ s.length ∧ isCharBoundary s k = true then .ok (s.drop k) else .panic

/-- `&s[..k]` on a `&str` -/
def sliceTo (s : List Nat) (k : Nat) : Res (List Nat) :=
  if k ≤ s.length ∧ isCharBoundary s k = true then .ok (s.take k) else .panic

/-- `s.as_bytes()[..k]`: bytes, no char-boundary requirement -/
def bytesTo (s : List Nat) (k : Nat) : Res (List Nat) :=
  if k ≤ s.length then .ok (s.take k) else .panic

/-- the recorded index expression `&src[src.len() - rest.len() ..]`, evaluated: it must not panic and must
give the suffix the model went on with -/
def sliceOk (e : Slice) : Bool := sliceFrom e.src e.k == .ok e.rest

/-- a recorded run, replayed: `.panic` if one of its `&str` index expressions panics (or would give
something else than the model continued with), otherwise the run's result (`Ok`/`Err` by value) -/
def evalSlices {α : Type} (x : T α) : Res (PRes α) :=
  if x.2.all sliceOk then .ok x.1 else .panic

/-! ### seed R4-C15-b: the suffix test of `short_or_long_month0` / `short_or_long_weekday`

The code as it is (`asIs`) compares `s.as_bytes()[..suffix.len()]` — a byte slice, guarded by
`s.len() >= suffix.len()` — and takes the `&str` slice `&s[suffix.len()..]` only after the ASCII comparison
succeeded.  The seed (`seeded`) compares `s[..suffix.len()]`, a `&str` prefix slice evaluated BEFORE the
comparison, which needs a char boundary at `suffix.len()`. -/

/-- scan.rs:137-139 as it is -/
def eatSuffixAsIs (s suffix : List Nat) : Res (List Nat) :=
  if s.length ≥ suffix.length then
    match bytesTo s suffix.length with
    | .panic => .panic
    | .ok pre => if lowerS pre = lowerS suffix then sliceFrom s suffix.length else .ok s
  else .ok s

/-- the same lines under seed R4-C15-b -/
def eatSuffixSeeded (s suffix : List Nat) : Res (List Nat) :=
  if s.length ≥ suffix.length then
    match sliceTo s suffix.length with
    | .panic => .panic
    | .ok pre => if lowerS pre = lowerS suffix then sliceFrom s suffix.length else .ok s
  else .ok s

end Chrono.Spec.StrSlice
