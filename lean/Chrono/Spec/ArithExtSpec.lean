/-
  Specification side for the C03 audit gaps: what a script of interleaved `next` / `next_back` calls
  on ONE day/week iterator returns, on day numbers only (no chrono arithmetic): a single cursor that
  a forward call moves `s` days up and a backward call `s` days down, each call returning the cursor
  it found; a call whose target lies outside `[MIN, MAX]` returns nothing and leaves the cursor.
-/
import Chrono.Spec.ArithSpec
namespace Chrono.Spec
open Chrono.M

/-- the day numbers returned by a script of calls (`false` = `next`, `true` = `next_back`) with step
`s`, started with the cursor on day number `n` -/
def specScript (s : Int) : List Bool → Int → List (Option Int)
  | [], _ => []
  | b :: rest, n =>
    if DN_MIN ≤ (if b then n - s else n + s) ∧ (if b then n - s else n + s) ≤ DN_MAX then
      some n :: specScript s rest (if b then n - s else n + s)
    else none :: specScript s rest n

/-- the cursor after a script -/
def specCursor (s : Int) : List Bool → Int → Int
  | [], n => n
  | b :: rest, n =>
    if DN_MIN ≤ (if b then n - s else n + s) ∧ (if b then n - s else n + s) ≤ DN_MAX then
      specCursor s rest (if b then n - s else n + s)
    else specCursor s rest n

end Chrono.Spec
