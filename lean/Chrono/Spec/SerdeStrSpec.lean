/-
  Specification side for the string forms of C20: a value of a string-form type through a text data format.
  The format is a parameter (`StrFormat`, Spec/SerdeSpec.lean); the only thing assumed of it is `Faithful`:
  a string handed to it by `collect_str` is handed back to `visit_str` as the same string.

  `collect_str(&display)` runs the type's writer; `deserialize_str(visitor)` hands the stored string to the
  visitor's `visit_str`.  What a format does when the writer itself answers `Err(fmt::Error)` differs between
  formats (serde's default `collect_str` goes through `to_string()`, which panics); it is written `.ok .err`
  here, and every theorem about these functions shows the case does not arise on its domain.
-/
import Chrono.Spec.SerdeSpec
import Chrono.Spec.TextFormsSpec
import Chrono.Model.SerdeStr
namespace Chrono.Spec.Serde
open Chrono.M Chrono.M.Serde

/-- the offset part of a serialized zone-aware value: `Z` for offset zero, else `+hh:mm` / `-hh:mm`
(`Spec.Text.offsetText`, whole-minute offsets) -/
def zoneText (off : Int) : List Nat := if off = 0 then [90] else Chrono.Spec.Text.offsetText off

/-- `Serialize::serialize(&v, F)` of a string-form type with writer `w` -/
def strSerializeW {α} (F : StrFormat) (w : α → Format.W) (v : α) : Res (SR F.E) :=
  match w v with
  | .ok (some text) => .ok (.ok (F.putStr text))
  | .ok none => .ok .err
  | .panic => .panic

/-- `Deserialize::deserialize(F)` of a string-form type with visitor method `visit_str` -/
def strDeserializeV {α} (F : StrFormat) (visit_str : List Nat → Res (SR α)) (e : F.E) : Res (SR α) :=
  match F.getStr e with
  | some s => visit_str s
  | none => .ok .err

/-- serialize, then deserialize what the format stored -/
def strRoundTrip {α β} (F : StrFormat) (w : α → Format.W) (visit_str : List Nat → Res (SR β)) (v : α) :
    Res (SR β) :=
  match strSerializeW F w v with
  | .ok (.ok e) => strDeserializeV F visit_str e
  | .ok .err => .ok .err
  | .panic => .panic

end Chrono.Spec.Serde
