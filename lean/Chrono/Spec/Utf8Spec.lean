/-
  Char boundaries of UTF-8 byte strings (property C15, byte level).  `validUtf8` is the model of
  `str::from_utf8` in Model/TzParse.lean (the Unicode well-formed byte sequence table); a Rust `&str` is
  a byte string satisfying it.  `&s[k..]` panics unless `s.is_char_boundary(k)`.
-/
import Chrono.Model.TzParse
namespace Chrono.Spec.Utf8
open Chrono.M.Tz

/-- `str::is_char_boundary(k)`: index 0, the length, or an index whose byte is not a continuation byte
(`(b as i8) >= -0x40`, i.e. not in 0x80..=0xBF) -/
def isCharBoundary (s : List Nat) (k : Nat) : Bool :=
  k == 0 || k == s.length || (decide (k < s.length) && !(cont (s.getD k 0)))

/-- `rest` is `&s[k..]` for an index `k` that splits `s` between whole characters: what has been
consumed is itself well-formed UTF-8 -/
def BoundarySuffix (s rest : List Nat) : Prop := ∃ pre, s = pre ++ rest ∧ validUtf8 pre = true

end Chrono.Spec.Utf8
