/-
  Specification side for the full-domain statements of C20 about zone-aware values and leap-second
  representations (audit gaps HIGH-1, MEDIUM-1, MEDIUM-2): what the text of a value with ANY offset and
  ANY well-formed time of day is, written from the property statement and the documented behaviour of the
  RFC 3339 writer (offset shown in whole minutes), without reference to the writer / reader models.
-/
import Chrono.Spec.SerdeStrSpec
import Chrono.Spec.ZonedSpec
namespace Chrono.Spec.Serde
open Chrono.M Chrono.Spec Chrono.Spec.Text

/-- the offset as an RFC 3339 text shows it: the magnitude rounded to the nearest whole minute (half a
minute rounds up), the sign kept -/
def roundMin (off : Int) : Int :=
  if off < 0 then -((-off + 30) / 60 * 60) else (off + 30) / 60 * 60

/-- sign, two-digit hours, `:`, two-digit minutes of `m` minutes (`m ≤ 1440`; 1440 gives `24:00`) -/
def signedHhmm (neg : Bool) (m : Nat) : List Nat :=
  (if neg then 45 else 43) :: (decN 2 (m / 60) ++ [58] ++ decN 2 (m % 60))

/-- the offset part of a serialized zone-aware value, for ANY offset of less than a day: `Z` exactly for
offset zero; otherwise the sign of the offset itself followed by `hh:mm` of the rounded magnitude (so
+00:00:29 is `+00:00`, −00:00:29 is `-00:00`, ±23:59:30 and beyond is `±24:00`) -/
def zoneTextAny (off : Int) : List Nat :=
  if off = 0 then [90] else signedHhmm (decide (off < 0)) ((roundMin off).natAbs / 60)

/-- a leap-second representation (fraction field ≥ 10⁹) attached to a second other than :59 — constructible
only with `with_nanosecond` — is *shown* as the following second with the fraction reduced by 10⁹; every
other time of day is shown as itself.  Same position on the nanosecond line either way. -/
def shownTime (t : Time) : Time :=
  if t.frac ≥ 1000000000 ∧ t.secs % 60 ≠ 59 then ⟨t.secs + 1, t.frac - 1000000000⟩ else t

/-- the whole second of the wall clock of a zone-aware value as its text shows it (see `shownTime`) -/
def shownWallSecs (z : Zoned) : Int :=
  wallSecs z + (if z.utc.time.frac ≥ 1000000000 ∧ wallSecs z % 60 ≠ 59 then 1 else 0)
/-- … and the fraction field the text shows -/
def shownWallFrac (z : Zoned) : Int :=
  if z.utc.time.frac ≥ 1000000000 ∧ wallSecs z % 60 ≠ 59 then z.utc.time.frac - 1000000000 else z.utc.time.frac

/-- a data format for the `(i64, i32)` tuple of `TimeDelta` (`serialize_tuple` / `deserialize_tuple` of two
integer fields); the only thing assumed of it is `Faithful`: a pair that fits `(i64, i32)` comes back as the
same pair (trusted: serde_json, bincode) -/
structure PairFormat where
  E : Type
  putPair : Int × Int → E
  getPair : E → Option (Int × Int)
def PairFormat.Faithful (F : PairFormat) : Prop :=
  ∀ a b, Chrono.Spec.Ts.isI64 a → isI32 b → F.getPair (F.putPair (a, b)) = some (a, b)

/-- `TimeDelta` through a tuple format: `Serialize`, store, load, `Deserialize` (a tuple the format cannot
load is a deserialization error) -/
def deltaRoundTrip (F : PairFormat) (d : Delta) : Chrono.M.Serde.SR Delta :=
  match F.getPair (F.putPair (Chrono.M.Serde.TimeDelta.serialize d)) with
  | some p => Chrono.M.Serde.TimeDelta.deserialize p
  | none => .err

end Chrono.Spec.Serde
