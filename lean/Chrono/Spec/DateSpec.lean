/- Specification-level view of a packed date. -/
import Chrono.Model.Date
import Chrono.Spec.Calendar
namespace Chrono.Spec
open Chrono.M Chrono.Extracted

/-- the packed word of the `o`-th day of year `y` -/
def dateOfYo (y : Int) (o : Nat) : Date := ⟨y * 8192 + o * 16 + flagsOf y⟩

/-- representation invariant of `NaiveDate`: year in range, ordinal exists in that year, flags are
the flags of the year -/
def DateInv (d : Date) : Prop :=
  MIN_YEAR ≤ d.year ∧ d.year ≤ MAX_YEAR ∧ 1 ≤ d.ordinal ∧ d.ordinal ≤ yearLen d.year ∧
  d.yof % 16 = flagsOf d.year
instance (d : Date) : Decidable (DateInv d) := by unfold DateInv; exact inferInstance

/-- the day number a date denotes -/
def dayNumOf (d : Date) : Int := dayNumYo d.year d.ordinal

end Chrono.Spec
