/-
  Specification side of C16: a conforming TZif writer (RFC 8536, versions 1–3) and the canonical
  text of a POSIX TZ rule, both independent of the reader's code; plus the well-formedness
  predicates the round-trip theorems quantify over and the validity predicate of accepted zones.
-/
import Chrono.Model.TzParse
namespace Chrono.Spec.Tz
open Chrono Chrono.M.Tz

/-! ### TZif writer -/
/-- one local time type record as written: offset, DST flag, index into the designations -/
structure TyRec where
  off : Int
  dst : Bool
  abbr : Nat
  deriving DecidableEq, Repr

/-- one data block as written -/
structure Block where
  trans : List (Int × Nat)
  types : List TyRec
  names : List Nat
  leaps : List (Int × Int)
  stdWalls : List Nat
  utLocals : List Nat
  deriving DecidableEq, Repr

structure TzFile where
  version : Version
  v1 : Block
  v2 : Block          -- written for versions 2 and 3 only
  footer : List Nat   -- the TZ string between the two newlines (may be empty)
  deriving DecidableEq, Repr

/-- big-endian two's-complement encoding of `x` in `n` bytes -/
def beBytes : Nat → Int → List Nat
  | 0, _ => []
  | n + 1, x => (x / (256 ^ n) % 256).toNat :: beBytes n x

def u32 (n : Nat) : List Nat := beBytes 4 n

def versionByte : Version → Nat
  | .V1 => 0
  | .V2 => 50
  | .V3 => 51

def encHeader (v : Version) (b : Block) : List Nat :=
  [84, 90, 105, 102] ++ [versionByte v] ++ List.replicate 15 0
    ++ u32 b.utLocals.length ++ u32 b.stdWalls.length ++ u32 b.leaps.length
    ++ u32 b.trans.length ++ u32 b.types.length ++ u32 b.names.length

def encBody (ts : Nat) (b : Block) : List Nat :=
  (b.trans.flatMap fun t => beBytes ts t.1)
    ++ b.trans.map (fun t => t.2)
    ++ (b.types.flatMap fun t => beBytes 4 t.off ++ [if t.dst then 1 else 0, t.abbr])
    ++ b.names
    ++ (b.leaps.flatMap fun l => beBytes ts l.1 ++ beBytes 4 l.2)
    ++ b.stdWalls ++ b.utLocals

/-- the writer -/
def encodeTzif (f : TzFile) : List Nat :=
  match f.version with
  | .V1 => encHeader .V1 f.v1 ++ encBody 4 f.v1
  | v => encHeader v f.v1 ++ encBody 4 f.v1 ++ encHeader v f.v2 ++ encBody 8 f.v2
          ++ [10] ++ f.footer ++ [10]

/-- the header a block is written with -/
def hdrOf (v : Version) (b : Block) : Header :=
  ⟨v, b.utLocals.length, b.stdWalls.length, b.leaps.length, b.trans.length, b.types.length, b.names.length⟩

/-- what every written block satisfies, decoded or not: counts fit 32 bits, at least one type and one
designation byte, indicator arrays empty or one per type -/
structure BlockShape (b : Block) : Prop where
  nt : b.trans.length < 4294967296
  nty : b.types.length < 4294967296
  nn : b.names.length < 4294967296
  nl : b.leaps.length < 4294967296
  ty0 : b.types.length ≠ 0
  nn0 : b.names.length ≠ 0
  sw : b.stdWalls.length = 0 ∨ b.stdWalls.length = b.types.length
  ul : b.utLocals.length = 0 ∨ b.utLocals.length = b.types.length

/-- designation starting at index `at`: the bytes up to the next NUL; `none` if empty -/
def nameAt (names : List Nat) (i : Nat) : Option (List Nat) :=
  let n := (names.drop i).takeWhile (fun c => c != 0)
  if n.isEmpty then none else some n

/-- what a block denotes: the zone data a reader must return (without the rule) -/
def absBlock (b : Block) (rule : Option Rule) : Zone :=
  { transitions := b.trans.map fun t => ⟨t.1, t.2⟩
    types := b.types.map fun t => ⟨t.off, t.dst, nameAt b.names t.abbr⟩
    leaps := b.leaps.map fun l => ⟨l.1, l.2⟩
    rule := rule }

/-! ### canonical TZ text -/
def digitChar (d : Nat) : Nat := 48 + d

/-- decimal digits of `n`, most significant first (fuel = an upper bound on the digit count) -/
def renderNatAux : Nat → Nat → List Nat → List Nat
  | 0, _, acc => acc
  | fuel + 1, n, acc =>
    if n < 10 then digitChar n :: acc else renderNatAux fuel (n / 10) (digitChar (n % 10) :: acc)
def renderNat (n : Nat) : List Nat := renderNatAux (n + 1) n []

/-- `h[:m[:s]]` of a non-negative number of seconds, shortest form -/
def renderHmsAbs (a : Nat) : List Nat :=
  renderNat (a / 3600)
    ++ (if a % 60 ≠ 0 then [58] ++ renderNat (a / 60 % 60) ++ [58] ++ renderNat (a % 60)
        else if a / 60 % 60 ≠ 0 then [58] ++ renderNat (a / 60 % 60) else [])

/-- `[-]h[:m[:s]]`, shortest form -/
def renderHms (v : Int) : List Nat :=
  (if v < 0 then [45] else []) ++ renderHmsAbs v.natAbs

/-- alphabetic designations are written bare, the others in angle brackets -/
def renderName (n : List Nat) : List Nat := if n.all isAlpha then n else [60] ++ n ++ [62]

def renderDay : RuleDay → List Nat
  | .julian1 n => [74] ++ renderNat n
  | .julian0 n => renderNat n
  | .mwd m w d => [77] ++ renderNat m ++ [46] ++ renderNat w ++ [46] ++ renderNat d

/-- the canonical text: `std offset` or `std offset dst offset,start/time,end/time` -/
def renderTz : Rule → List Nat
  | .fixed t => renderName (t.name.getD []) ++ renderHms (-t.off)
  | .alt a =>
    renderName (a.std.name.getD []) ++ renderHms (-a.std.off)
      ++ renderName (a.dst.name.getD []) ++ renderHms (-a.dst.off)
      ++ [44] ++ renderDay a.dstStart ++ [47] ++ renderHms a.dstStartTime
      ++ [44] ++ renderDay a.dstEnd ++ [47] ++ renderHms a.dstEndTime

/-! ### well-formedness (what a conforming writer may write) -/
def NameOk (n : List Nat) : Prop := 3 ≤ n.length ∧ n.length ≤ 7 ∧ n.all nameChar = true
instance (n : List Nat) : Decidable (NameOk n) := by unfold NameOk; infer_instance

/-- a local time type a conforming writer may state in a TZ string: the flag as given, a legal
designation, and an offset STRICTLY within 24 hours of UTC (`±23:59:59`; after the repair of finding
F32 an offset of `24:00:00` or more — which the POSIX field ranges `hh = 0…24` can spell — is refused
when the `LocalTimeType` is constructed) -/
def LttOk (t : Ltt) (dst : Bool) : Prop :=
  t.dst = dst ∧ (match t.name with | some n => NameOk n | none => False) ∧ -86400 < t.off ∧ t.off < 86400
instance (t : Ltt) (dst : Bool) : Decidable (LttOk t dst) := by
  unfold LttOk; cases t.name <;> infer_instance

def DayOk : RuleDay → Prop
  | .julian1 n => 1 ≤ n ∧ n ≤ 365
  | .julian0 n => n ≤ 365
  | .mwd m w d => 1 ≤ m ∧ m ≤ 12 ∧ 1 ≤ w ∧ w ≤ 5 ∧ d ≤ 6
instance (d : RuleDay) : Decidable (DayOk d) := by
  cases d <;> unfold DayOk <;> infer_instance

/-- rule times: `0 … 24:59:59` for plain POSIX, `±167:59:59` with the RFC 8536 extensions -/
def TimeOk (ext : Bool) (t : Int) : Prop :=
  (ext = true → -604799 ≤ t ∧ t ≤ 604799) ∧ (ext = false → 0 ≤ t ∧ t ≤ 89999)
instance (ext : Bool) (t : Int) : Decidable (TimeOk ext t) := by unfold TimeOk; infer_instance

def RuleOk (ext : Bool) : Rule → Prop
  | .fixed t => LttOk t false
  | .alt a => LttOk a.std false ∧ LttOk a.dst true ∧ DayOk a.dstStart ∧ DayOk a.dstEnd
      ∧ TimeOk ext a.dstStartTime ∧ TimeOk ext a.dstEndTime
instance (ext : Bool) (r : Rule) : Decidable (RuleOk ext r) := by
  cases r <;> unfold RuleOk <;> infer_instance

/-! ### validity of an accepted zone (what `parse b = ok z` must imply) -/
def SortedStrict : List Transition → Prop
  | [] => True
  | [_] => True
  | a :: b :: rest => a.time < b.time ∧ SortedStrict (b :: rest)

def ZoneValid (z : Zone) : Prop :=
  z.types ≠ [] ∧ SortedStrict z.transitions ∧ (∀ t ∈ z.transitions, t.idx < z.types.length)
    ∧ (∀ t ∈ z.types, (-86400 < t.off ∧ t.off < 86400) ∧ ∀ n, t.name = some n → NameOk n)

/-! ### the layout a header announces -/
/-- the `k`-th 32-bit count of the header at the start of `bytes` (RFC 8536 order: `isutcnt`,
`isstdcnt`, `leapcnt`, `timecnt`, `typecnt`, `charcnt`), big-endian -/
def hdrCount (bytes : List Nat) (k : Nat) : Nat := beNat ((bytes.drop (20 + 4 * k)).take 4)

/-- length of the header plus the data block its six counts announce, with `ts`-byte times -/
def announcedLen (ts : Nat) (bytes : List Nat) : Nat :=
  44 + hdrCount bytes 3 * ts + hdrCount bytes 3 + hdrCount bytes 4 * 6 + hdrCount bytes 5
    + hdrCount bytes 2 * (ts + 4) + hdrCount bytes 1 + hdrCount bytes 0

/-- the footer bytes of a file as the reader slices it: everything after the second data block
(empty for version 1 and for files whose blocks cannot be sliced) -/
def footerOf (bytes : List Nat) : List Nat :=
  match parseBlocks bytes with
  | .ok (_, some f) => f
  | _ => []

end Chrono.Spec.Tz
