/-
  Specification for C12: the documentation table of src/format/strftime.rs ("Specifiers") turned
  into `renderNumeric` / `renderFixed`: which calendar / clock / offset field a specifier shows and
  with which width, padding, sign, truncation and rounding.  Written from the documentation and from
  the independent calendar of Spec/Calendar.lean — not from formatting.rs:

  * a date is (year `y`, ordinal `o`); month/day are `monthOfYo`/`dayOfYo`, the weekday is
    `weekdayOf (dayNumYo y o)`; `%C`/`%y` are floor division / modulo (footnote 1);
  * `%U`/`%W`: "week 1 starts with the first Sunday (Monday) in that year; days before it are in week
    0" — i.e. the number of Sundays (Mondays) among the days 1..o of the year (`countStarts`);
  * `%G %g %V`: ISO 8601 week date — the year and week of the Thursday of the Monday-based week;
  * clock: `%I` is the 12-hour clock 12,1,…,11; `%S` shows 60 for a leap second; `%f` the nanoseconds
    since the last whole second; `%.f` 0/3/6/9 digits, `%.3f` … truncate;
  * offsets: `%z`/`%:z` are rounded to the nearest minute, `%::z` shows seconds, `%:::z` truncates to
    hours; `%s` is the number of non-leap seconds since 1970-01-01T00:00 UTC.
  Decimal numerals are core Lean's `Nat.toDigits 10`.
-/
import Chrono.Model.Items
import Chrono.Model.Time
import Chrono.Spec.Calendar
namespace Chrono.Spec.Strftime
open Chrono.M Chrono.Spec

/-- the decimal numeral of `n` (ASCII bytes), most significant digit first -/
def dec (n : Nat) : List Nat := (Nat.toDigits 10 n).map Char.toNat

/-- a number shown with minimum width `w`: no padding, zeros (after the sign) or spaces (before the
sign); `plus` = a `+` sign is shown for non-negative values -/
def number (v : Int) (w : Nat) (pad : Pad) (plus : Bool) : List Nat :=
  let sign : List Nat := if v < 0 then [45] else if plus then [43] else []
  let body := dec v.natAbs
  match pad with
  | .none => sign ++ body
  | .zero => sign ++ List.replicate (w - (sign.length + body.length)) 48 ++ body
  | .space => List.replicate (w - (sign.length + body.length)) 32 ++ sign ++ body

/-- number of days among ordinals `1..o` of year `y` whose weekday is `start` (0 = Monday) -/
def countStarts (y : Int) (o : Nat) (start : Int) : Nat :=
  ((List.range o).filter fun (k : Nat) => weekdayOf (dayNumYo y ((k : Int) + 1)) == start).length

/-- ISO 8601 week-numbering year of the `o`-th day of year `y`: the calendar year that contains the
Thursday of its week (that Thursday is at most three days away, so the year is `y − 1`, `y` or `y + 1`) -/
def isoYear (y : Int) (o : Nat) : Int :=
  let thu := isoThursday (dayNumYo y o)
  if thu ≤ daysBeforeYear y then y - 1 else if thu > daysBeforeYear (y + 1) then y + 1 else y

/-- ISO 8601 week number: the Thursday's ordinal in its year, in whole weeks, counted from 1 -/
def isoWeek (y : Int) (o : Nat) : Int :=
  (isoThursday (dayNumYo y o) - daysBeforeYear (isoYear y o) - 1) / 7 + 1

/-- Unix timestamp of local date `(y, o)`, time `secs` at UTC offset `off` -/
def timestamp (y : Int) (o : Nat) (secs off : Int) : Int :=
  (dayNumYo y o - dayNum 1970 1 1) * 86400 + secs - off

/-- the value a numeric specifier shows -/
def numericValue (n : Numeric) (y : Int) (o : Nat) (t : Time) (off : Int) : Int :=
  match n with
  | .year => y
  | .yearDiv100 => y / 100
  | .yearMod100 => y % 100
  | .isoYear => isoYear y o
  | .isoYearDiv100 => isoYear y o / 100
  | .isoYearMod100 => isoYear y o % 100
  | .quarter => (monthOfYo y o + 2) / 3
  | .month => monthOfYo y o
  | .day => dayOfYo y o
  | .weekFromSun => countStarts y o 6
  | .weekFromMon => countStarts y o 0
  | .isoWeek => isoWeek y o
  | .numDaysFromSun => (weekdayOf (dayNumYo y o) + 1) % 7
  | .weekdayFromMon => weekdayOf (dayNumYo y o) + 1
  | .ordinal => o
  | .hour => t.secs / 3600
  | .hour12 => (t.secs / 3600 + 11) % 12 + 1
  | .minute => t.secs / 60 % 60
  | .second => t.secs % 60 + (if t.frac ≥ 1000000000 then 1 else 0)
  | .nanosecond => t.frac % 1000000000
  | .timestamp => timestamp y o t.secs off

/-- documented width of a numeric specifier -/
def numericWidth : Numeric → Nat
  | .year | .isoYear => 4
  | .ordinal => 3
  | .nanosecond | .timestamp => 9
  | .quarter | .numDaysFromSun | .weekdayFromMon => 1
  | _ => 2

/-- a year: four digits, and "years before 1 BCE or after 9999 CE require an initial sign" -/
def yearText (v : Int) (pad : Pad) : List Nat :=
  if 0 ≤ v ∧ v ≤ 9999 then number v 4 pad false else number v 5 pad true

/-- text of a numeric specifier with padding `pad`: years outside 0..9999 carry a sign (and are
padded to 4 digits plus the sign); single-digit fields ignore the padding -/
def renderNumeric (n : Numeric) (pad : Pad) (y : Int) (o : Nat) (t : Time) (off : Int) : List Nat :=
  let v := numericValue n y o t off
  match n with
  | .year | .isoYear => yearText v pad
  | .quarter | .numDaysFromSun | .weekdayFromMon => number v 1 .none false
  | _ => number v (numericWidth n) pad false

/-! ### names, fraction, offsets -/

def str (s : String) : List Nat := s.toList.map Char.toNat

def monthNames : List String :=
  ["January", "February", "March", "April", "May", "June", "July", "August", "September", "October",
   "November", "December"]
/-- Monday first -/
def weekdayNames : List String := ["Monday", "Tuesday", "Wednesday", "Thursday", "Friday", "Saturday", "Sunday"]

def monthName (m : Nat) : List Nat := str (monthNames.getD (m - 1) "")
def weekdayName (wd : Int) : List Nat := str (weekdayNames.getD wd.toNat "")

/-- the fraction of a second truncated to `width` digits (`width ≤ 9`): the whole number of
10^-width seconds, shown with exactly `width` digits -/
def fracDigits (frac : Int) (width : Nat) : List Nat :=
  number ((frac % 1000000000) / 10 ^ (9 - width)) width .zero false

/-- `%.f`: nothing, or a dot and 3, 6 or 9 digits — the fewest that show the value exactly -/
def fracAuto (frac : Int) : List Nat :=
  let nano := frac % 1000000000
  if nano = 0 then [] else if nano % 1000000 = 0 then 46 :: fracDigits frac 3
  else if nano % 1000 = 0 then 46 :: fracDigits frac 6 else 46 :: fracDigits frac 9

inductive OffsetStyle where
  /-- `%z` `+hhmm` -/ | plain
  /-- `%:z` `+hh:mm` -/ | colon
  /-- `%::z` `+hh:mm:ss` -/ | seconds
  /-- `%:::z` `+hh` -/ | hours
  deriving DecidableEq, Repr

def two (v : Int) : List Nat := number v 2 .zero false

/-- text of a UTC offset (`off` = local − UTC in seconds) -/
def renderOffset (style : OffsetStyle) (off : Int) : List Nat :=
  let sign : Nat := if off < 0 then 45 else 43
  let a : Int := off.natAbs
  match style with
  | .hours => sign :: two (a / 3600)                                   -- minutes are truncated
  | .seconds => sign :: (two (a / 3600) ++ [58] ++ two (a / 60 % 60) ++ [58] ++ two (a % 60))
  | .plain => let m := (a + 30) / 60; sign :: (two (m / 60) ++ two (m % 60))        -- nearest minute
  | .colon => let m := (a + 30) / 60; sign :: (two (m / 60) ++ [58] ++ two (m % 60))

/-- text of the fixed items that do not involve other items (`none` = not covered here) -/
def renderFixed (f : Fixed) (y : Int) (o : Nat) (t : Time) (off : Int) : Option (List Nat) :=
  match f with
  | .shortMonthName => some ((monthName (monthOfYo y o)).take 3)
  | .longMonthName => some (monthName (monthOfYo y o))
  | .shortWeekdayName => some ((weekdayName (weekdayOf (dayNumYo y o))).take 3)
  | .longWeekdayName => some (weekdayName (weekdayOf (dayNumYo y o)))
  | .lowerAmPm => some (if t.secs < 43200 then str "am" else str "pm")
  | .upperAmPm => some (if t.secs < 43200 then str "AM" else str "PM")
  | .nanosecond => some (fracAuto t.frac)
  | .nanosecond3 => some (46 :: fracDigits t.frac 3)
  | .nanosecond6 => some (46 :: fracDigits t.frac 6)
  | .nanosecond9 => some (46 :: fracDigits t.frac 9)
  | .nanosecond3NoDot => some (fracDigits t.frac 3)
  | .nanosecond6NoDot => some (fracDigits t.frac 6)
  | .nanosecond9NoDot => some (fracDigits t.frac 9)
  | .timezoneOffset => some (renderOffset .plain off)
  | .timezoneOffsetColon => some (renderOffset .colon off)
  | .timezoneOffsetDoubleColon => some (renderOffset .seconds off)
  | .timezoneOffsetTripleColon => some (renderOffset .hours off)
  | .timezoneOffsetZ => some (if off = 0 then [90] else renderOffset .plain off)
  | .timezoneOffsetColonZ => some (if off = 0 then [90] else renderOffset .colon off)
  | _ => none

/-- the documented expansions of the composite specifiers (format strings as text) -/
def expansions : List (String × String) :=
  [("%D", "%m/%d/%y"), ("%x", "%m/%d/%y"), ("%F", "%Y-%m-%d"), ("%v", "%e-%b-%Y"), ("%R", "%H:%M"),
   ("%T", "%H:%M:%S"), ("%X", "%H:%M:%S"), ("%r", "%I:%M:%S %p"), ("%c", "%a %b %e %H:%M:%S %Y"),
   ("%h", "%b"), ("%e", "%_d"), ("%k", "%_H"), ("%l", "%_I")]

/-- every specifier of the documentation table, as (text after `%`) -/
def documented : List String :=
  ["Y", "C", "y", "q", "m", "b", "B", "h", "d", "e", "a", "A", "w", "u", "U", "W", "G", "g", "V", "j",
   "D", "x", "F", "v", "H", "k", "I", "l", "P", "p", "M", "S", "f", ".f", ".3f", ".6f", ".9f", "3f", "6f",
   "9f", "R", "T", "X", "r", "Z", "z", ":z", "::z", ":::z", "#z", "c", "+", "s", "t", "n", "%"]

end Chrono.Spec.Strftime
