/-
  Specification side for C10: the RFC 3339 `date-time` grammar (section 5.6) with chrono's documented
  latitude, as a relation between a byte string and the fields it shows, written without reference to
  chrono's scanners; the validity of the fields; and the value the fields denote.

    date-time = 4DIGIT "-" 2DIGIT "-" 2DIGIT  ("T" / "t" / " ")
                2DIGIT ":" 2DIGIT ":" 2DIGIT  [ "." 1*DIGIT ]
                ( "Z" / "z" / ("+" / "-" / U+2212) 2DIGIT ":" 2DIGIT )

  Text is a UTF-8 byte string (`List Nat`); U+2212 MINUS SIGN is the three bytes E2 88 92.
-/
import Chrono.Spec.ZonedSpec
import Chrono.Model.Format
namespace Chrono.Spec
namespace Rfc3339
open Chrono.M

/-- an ASCII digit -/
def IsDig (b : Nat) : Prop := 48 ≤ b ∧ b ≤ 57
instance (b : Nat) : Decidable (IsDig b) := by unfold IsDig; exact inferInstance

def dval (b : Nat) : Nat := b - 48
def num2 (a b : Nat) : Nat := dval a * 10 + dval b
def num4 (a b c d : Nat) : Nat := dval a * 1000 + dval b * 100 + dval c * 10 + dval d

/-- the number a string of digits denotes -/
def digitsVal : List Nat → Nat → Nat
  | [], acc => acc
  | c :: cs, acc => digitsVal cs (acc * 10 + dval c)

/-- what a matching string shows -/
structure Fields where
  year : Nat
  month : Nat
  day : Nat
  hour : Nat
  minute : Nat
  second : Nat
  /-- the digits after the `.`; empty when there is no fraction part -/
  fracDigits : List Nat
  /-- the offset is written `Z` or `z` -/
  zulu : Bool
  /-- numeric offset: sign, hours, minutes (`false, 0, 0` for `Z`) -/
  neg : Bool
  offH : Nat
  offM : Nat
  deriving DecidableEq, Repr

/-- `[ "." 1*DIGIT ]` -/
inductive FracText : List Nat → List Nat → Prop
  | absent : FracText [] []
  | present (ds : List Nat) (hne : ds ≠ []) (hd : ∀ c ∈ ds, IsDig c) : FracText (46 :: ds) ds

/-- `"Z" / "z" / ("+" / "-" / U+2212) 2DIGIT ":" 2DIGIT` : text, zulu, negative, hours, minutes -/
inductive OffsetText : List Nat → Bool → Bool → Nat → Nat → Prop
  | upperZ : OffsetText [90] true false 0 0
  | lowerZ : OffsetText [122] true false 0 0
  | plus (h1 h2 m1 m2 : Nat) (d : IsDig h1 ∧ IsDig h2 ∧ IsDig m1 ∧ IsDig m2) :
      OffsetText [43, h1, h2, 58, m1, m2] false false (num2 h1 h2) (num2 m1 m2)
  | hyphen (h1 h2 m1 m2 : Nat) (d : IsDig h1 ∧ IsDig h2 ∧ IsDig m1 ∧ IsDig m2) :
      OffsetText [45, h1, h2, 58, m1, m2] false true (num2 h1 h2) (num2 m1 m2)
  | minus (h1 h2 m1 m2 : Nat) (d : IsDig h1 ∧ IsDig h2 ∧ IsDig m1 ∧ IsDig m2) :
      OffsetText [226, 136, 146, h1, h2, 58, m1, m2] false true (num2 h1 h2) (num2 m1 m2)

/-- **the grammar**: `s` is an RFC 3339 date-time showing the fields `f` -/
def Matches (s : List Nat) (f : Fields) : Prop :=
  ∃ (y1 y2 y3 y4 mo1 mo2 d1 d2 sep h1 h2 mi1 mi2 s1 s2 : Nat) (fr off : List Nat),
    (IsDig y1 ∧ IsDig y2 ∧ IsDig y3 ∧ IsDig y4) ∧ (IsDig mo1 ∧ IsDig mo2) ∧ (IsDig d1 ∧ IsDig d2) ∧
    (sep = 84 ∨ sep = 116 ∨ sep = 32) ∧
    (IsDig h1 ∧ IsDig h2) ∧ (IsDig mi1 ∧ IsDig mi2) ∧ (IsDig s1 ∧ IsDig s2) ∧
    FracText fr f.fracDigits ∧ OffsetText off f.zulu f.neg f.offH f.offM ∧
    s = [y1, y2, y3, y4, 45, mo1, mo2, 45, d1, d2, sep, h1, h2, 58, mi1, mi2, 58, s1, s2] ++ fr ++ off ∧
    f.year = num4 y1 y2 y3 y4 ∧ f.month = num2 mo1 mo2 ∧ f.day = num2 d1 d2 ∧
    f.hour = num2 h1 h2 ∧ f.minute = num2 mi1 mi2 ∧ f.second = num2 s1 s2

/-- **validity**: an existing date, a time of day (second 60 allowed: leap second), an offset within
±23:59 -/
def Valid (f : Fields) : Prop :=
  validYmd f.year f.month f.day = true ∧ f.hour < 24 ∧ f.minute < 60 ∧ f.second ≤ 60 ∧
  f.offH < 24 ∧ f.offM < 60
instance (f : Fields) : Decidable (Valid f) := by unfold Valid; exact inferInstance

/-- the offset shown, in seconds east of UTC -/
def offsetOf (f : Fields) : Int :=
  if f.neg then -((f.offH : Int) * 3600 + (f.offM : Int) * 60) else (f.offH : Int) * 3600 + (f.offM : Int) * 60

/-- the nanoseconds the fraction digits denote: the first nine digits, right-padded with zeros;
digits beyond the ninth are ignored (truncation) -/
def fracNanos (ds : List Nat) : Nat := digitsVal (ds.take 9) 0 * 10 ^ (9 - (ds.take 9).length)

/-- seconds since 1970-01-01T00:00:00 of the wall clock shown (second 60 counts as its :59) -/
def wallSecsOf (f : Fields) : Int :=
  (dayNum f.year f.month f.day - EPOCH_DAY) * 86400 + (f.hour : Int) * 3600 + (f.minute : Int) * 60 +
    (if f.second = 60 then 59 else (f.second : Int))

/-- the nanosecond field of the value: the fraction, plus 10⁹ for a leap second (second 60) -/
def fracOf (f : Fields) : Int := (fracNanos f.fracDigits : Int) + (if f.second = 60 then 1000000000 else 0)

/-- **denotation**: `v` is the (unique, see `Props.C10.denotes_unique`) well-formed zone-aware value
with the shown offset whose instant is the shown wall clock minus the offset -/
def Denotes (f : Fields) (v : Zoned) : Prop :=
  ZInv v ∧ v.off = offsetOf f ∧ instSecs v.utc = wallSecsOf f - offsetOf f ∧ v.utc.time.frac = fracOf f

/-! ### what the writer is asked for -/

/-- the digits `SecondsFormat` asks for, given the nanoseconds `n < 10⁹` within the second:
the number of digits and the (truncated) value they must show -/
def wantedFrac (sf : Format.SecondsFormat) (n : Nat) : Nat × Nat :=
  match sf with
  | .secs => (0, 0)
  | .millis => (3, n / 1000000)
  | .micros => (6, n / 1000)
  | .nanos => (9, n)
  | .autoSi =>
    if n = 0 then (0, 0) else if n % 1000000 = 0 then (3, n / 1000000)
    else if n % 1000 = 0 then (6, n / 1000) else (9, n)

/-- wall clocks (seconds since 1970-01-01T00:00:00 local) whose calendar year is 0–9999: from
0000-01-01T00:00:00 up to, not including, 10000-01-01T00:00:00 -/
def WallYear0to9999 (w : Int) : Prop :=
  (dayNum 0 1 1 - EPOCH_DAY) * 86400 ≤ w ∧ w < (dayNum 10000 1 1 - EPOCH_DAY) * 86400
instance (w : Int) : Decidable (WallYear0to9999 w) := by unfold WallYear0to9999; exact inferInstance

/-- the nanoseconds that survive the requested precision -/
def keptNanos (sf : Format.SecondsFormat) (n : Nat) : Nat :=
  (wantedFrac sf n).2 * 10 ^ (9 - (wantedFrac sf n).1)

/-- the value `z` with its sub-second part truncated to the precision `sf`; a leap-second
representation stays one (the `10⁹` flag of the nanosecond field is kept) -/
def truncatedTo (sf : Format.SecondsFormat) (z : Zoned) : Zoned :=
  ⟨⟨z.utc.date, ⟨z.utc.time.secs,
    (if z.utc.time.frac ≥ 1000000000 then 1000000000 else 0) +
      (keptNanos sf (z.utc.time.frac % 1000000000).toNat : Int)⟩⟩, z.off⟩

end Rfc3339
end Chrono.Spec
