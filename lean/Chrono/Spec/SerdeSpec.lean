/-
  Specification side for C20.  Nothing here looks at chrono's code.

  * A timestamp module of unit `u` stands for the map  value ↦ ⌊instant in ns / nsPer u⌋  (`tsOf`) and back
    integer ↦ the non-leap value that many units after the epoch (`IsAtUnits`).
  * A data format is a parameter: the only thing assumed of it is that an integer written with
    `serialize_i64` / `serialize_some` / `serialize_none` is handed back to the visitor as the same integer
    (as `i64`, or as `u64` when it is non-negative — `serde_json` does the latter, `bincode` the former), and a
    string written with `collect_str` is handed back as the same string (`Faithful`).  That serde_json and
    bincode satisfy this is trusted, and exercised on every run by the harness.
-/
import Chrono.Model.SerdeTs
import Chrono.Spec.TimestampSpec
namespace Chrono.Spec.Serde
open Chrono.M Chrono.M.Serde Chrono.Spec Chrono.Spec.Ts

/-- nanoseconds per unit of a timestamp module -/
def nsPer : TsUnit → Int
  | .secs => 1000000000
  | .millis => 1000000
  | .micros => 1000
  | .nanos => 1

/-- units per second -/
def perSec : TsUnit → Int
  | .secs => 1
  | .millis => 1000
  | .micros => 1000000
  | .nanos => 1000000000

/-- the exact integer timestamp of a value in unit `u` (floor: negative fractional counts round toward −∞) -/
def tsOf (u : TsUnit) (dt : NaiveDT) : Int := instNs dt / nsPer u

/-- what a module of unit `u` must write for `dt`: the exact integer; when it does not fit `i64` (possible
for the nanosecond modules only: years before 1677 / after 2262) the module must refuse with an error -/
def mustWrite (u : TsUnit) (dt : NaiveDT) : SR Int :=
  if isI64 (tsOf u dt) then .ok (tsOf u dt) else .err

/-- the value with its sub-second part cut down to the module's precision -/
def truncTo (u : TsUnit) (dt : NaiveDT) : NaiveDT := truncFrac dt (nsPer u)

/-- machine domains (`isI64`, `isU32` are in Spec/TimestampSpec.lean) -/
def isU64 (x : Int) : Prop := 0 ≤ x ∧ x ≤ 18446744073709551615
def isI32 (x : Int) : Prop := -2147483648 ≤ x ∧ x ≤ 2147483647
instance (x : Int) : Decidable (isU64 x) := by unfold isU64; exact inferInstance
instance (x : Int) : Decidable (isI32 x) := by unfold isI32; exact inferInstance

/-- a data format, as far as the timestamp modules use it: `E` is the encoded form -/
structure IntFormat where
  E : Type
  /-- the encoding produced for each serializer call -/
  put : SOut → E
  /-- what `deserialize_i64(visitor)` makes of an encoded form -/
  getInt : E → WInt
  /-- what `deserialize_option(visitor)` makes of an encoded form -/
  getOpt : E → WOpt

/-- the trusted behaviour of a format: decode (encode x) = x for `i64` and `Option<i64>`; a non-negative
integer may come back through `visit_u64` instead of `visit_i64` -/
def IntFormat.Faithful (F : IntFormat) : Prop :=
  (∀ n, isI64 n → F.getInt (F.put (.i64 n)) = .i64 n ∨ (0 ≤ n ∧ F.getInt (F.put (.i64 n)) = .u64 n)) ∧
  (∀ n, isI64 n → F.getOpt (F.put (.some n)) = .some (.i64 n) ∨
      (0 ≤ n ∧ F.getOpt (F.put (.some n)) = .some (.u64 n))) ∧
  (F.getOpt (F.put .none) = .none ∨ F.getOpt (F.put .none) = .unit)

/-- a format in the manner of `bincode`: the integer comes back signed, `None` as `visit_none` -/
def binLike : IntFormat where
  E := SOut
  put := id
  getInt := fun e => match e with | .i64 n => .i64 n | _ => .other
  getOpt := fun e => match e with | .some n => .some (.i64 n) | .none => .none | .i64 _ => .other

/-- a format in the manner of `serde_json`: an integer is a decimal text; a non-negative one comes back
through `visit_u64`; `Some(n)` and `n` have the same text; `None` is `null` -/
def jsonLike : IntFormat where
  E := Option Int
  put := fun o => match o with | .i64 n => some n | .some n => some n | .none => none
  getInt := fun e => match e with
    | some n => if n < 0 then .i64 n else .u64 n
    | none => .other
  getOpt := fun e => match e with
    | some n => .some (if n < 0 then .i64 n else .u64 n)
    | none => .none

/-- a data format for text: `collect_str` then `deserialize_str` -/
structure StrFormat where
  E : Type
  putStr : List Nat → E
  getStr : E → Option (List Nat)
def StrFormat.Faithful (F : StrFormat) : Prop := ∀ s, F.getStr (F.putStr s) = some s

/-- the serde glue of every string-form type: `collect_str(print v)` on the way out,
`visit_str(s) = parse(s).map_err(custom)` on the way in -/
def strSerialize {α} (F : StrFormat) (print : α → List Nat) (v : α) : F.E := F.putStr (print v)
def strDeserialize {α} (F : StrFormat) (parse : List Nat → Option α) (e : F.E) : SR α :=
  match F.getStr e with
  | some s => ok_or (parse s)
  | none => .err

/-- a value through one of the eight plain modules and a format: `serialize`, encode, decode, `deserialize` -/
def roundTrip (F : IntFormat) (tg : Target) (u : TsUnit) (dt : NaiveDT) : Res (SR NaiveDT) :=
  match serialize tg u dt with
  | .ok (.ok o) => deserialize tg u (F.getInt (F.put o))
  | .ok .err => .ok .err
  | .panic => .panic

/-- the same through one of the eight `_option` modules -/
def roundTripOpt (F : IntFormat) (tg : Target) (u : TsUnit) (v : Option NaiveDT) : Res (SR (Option NaiveDT)) :=
  match serialize_option tg u v with
  | .ok (.ok o) => deserialize_option tg u (F.getOpt (F.put o))
  | .ok .err => .ok .err
  | .panic => .panic

end Chrono.Spec.Serde
