/-
  Specification side for the date-time forms of C08: "whole years elapsed" with the time of day in the
  comparison.  Only the order on (year, month, day, second of day, nanosecond field) enters.
-/
import Chrono.Model.DateTimeOps
import Chrono.Spec.DateOpsSpec
import Chrono.Spec.TimeSpec
namespace Chrono.Spec
open Chrono.M

/-- lexicographic order on (year, month, day, second of day, nanosecond field) -/
def ymdtLt (y1 : Int) (m1 d1 : Nat) (t1 : Time) (y2 : Int) (m2 d2 : Nat) (t2 : Time) : Prop :=
  y1 < y2 ∨ (y1 = y2 ∧ (m1 < m2 ∨ (m1 = m2 ∧ (d1 < d2 ∨ (d1 = d2 ∧
    (t1.secs < t2.secs ∨ (t1.secs = t2.secs ∧ t1.frac < t2.frac)))))))
instance (y1 : Int) (m1 d1 : Nat) (t1 : Time) (y2 : Int) (m2 d2 : Nat) (t2 : Time) :
    Decidable (ymdtLt y1 m1 d1 t1 y2 m2 d2 t2) := by unfold ymdtLt; exact inferInstance

/-- `k` whole years have elapsed from the reading (y0, m0, d0, t0) to (y1, m1, d1, t1): the k-th
anniversary (same month, day and time of day, `k` years later) is not after the later reading, the
(k+1)-th is -/
def WholeYearsT (y0 : Int) (m0 d0 : Nat) (t0 : Time) (y1 : Int) (m1 d1 : Nat) (t1 : Time) (k : Int) : Prop :=
  0 ≤ k ∧ ¬ ymdtLt y1 m1 d1 t1 (y0 + k) m0 d0 t0 ∧ ymdtLt y1 m1 d1 t1 (y0 + k + 1) m0 d0 t0

/-- `t'` is a well-formed time of day whose four `Timelike` fields are `h m s n` (a well-formed time
is determined by them: C08 `time_fields_unique`) -/
def HasFields (t' : Time) (h m s n : Int) : Prop :=
  TValid t' ∧ t'.hour = h ∧ t'.minute = m ∧ t'.second = s ∧ t'.nanosecond = n
instance (t' : Time) (h m s n : Int) : Decidable (HasFields t' h m s n) := by
  unfold HasFields; exact inferInstance

/-- the closure `DateTime::with_year` hands to `map_local`: an unchanged year keeps the wall clock
(also one in a headroom year), otherwise `NaiveDateTime::with_year` -/
def withYearLocal (y : Int) (dt : NaiveDT) : Res (Option NaiveDT) :=
  if dt.date.year = y then .ok (some dt) else dt.with_year y

end Chrono.Spec
