/-
  Specification of ISO 8601 week dates in terms of day numbers only (no reference to chrono's year
  flags, week tables or packed words).  Weekdays are numbered from Monday = 0.
-/
import Chrono.Spec.Calendar
namespace Chrono.Spec

/-- Monday of ISO week 1 of year `y`: the Monday of the Monday-based week that contains 4 January -/
def isoWeek1Monday (y : Int) : Int := dayNumYo y 4 - weekdayOf (dayNumYo y 4)

/-- day number denoted by the ISO week date (year `y`, week `w`, weekday `wd`, Monday = 0) -/
def isoDayNum (y w wd : Int) : Int := isoWeek1Monday y + 7 * (w - 1) + wd

/-- ISO year `y` has a week number `w`: `w ≥ 1` and the Thursday of that week is a day of calendar
year `y` (after 31 December of `y - 1`, not after 31 December of `y`) -/
def isoWeekExists (y w : Int) : Prop :=
  1 ≤ w ∧ daysBeforeYear y < isoDayNum y w 3 ∧ isoDayNum y w 3 ≤ daysBeforeYear (y + 1)

instance (y w : Int) : Decidable (isoWeekExists y w) := by unfold isoWeekExists; exact inferInstance

/-- the usual calendar rule: a year has 53 ISO weeks when 1 January is a Thursday, or when it is a
leap year and 1 January is a Wednesday; 52 otherwise -/
def isoWeeksInYear (y : Int) : Nat :=
  if weekdayOf (dayNumYo y 1) = 3 ∨ (isLeap y = true ∧ weekdayOf (dayNumYo y 1) = 2) then 53 else 52

end Chrono.Spec
