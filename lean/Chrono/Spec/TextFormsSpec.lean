/-
  Specification side for C09: what the default text of each value is, written directly from the
  property statement (no reference to chrono's writers, `core::fmt` or the item-driven parser).

  * a date is `[sign]YYYY-MM-DD`: four digits for years 0..=9999 and no sign; otherwise an explicit
    `+` / `-` followed by the magnitude in at least four digits;
  * a time of day is `HH:MM:SS[.fraction]`, the second of a leap second printed as `60`, the fraction
    printed with the fewest of 0, 3, 6 or 9 digits that lose nothing;
  * an offset is `+hh:mm` / `-hh:mm` (whole minutes);
  * a naive date-time is date `T` time (`Debug`) or date space time (`Display`);
  * a zone-aware date-time is its local date-time followed by the offset (`Debug`; `Z` for `Utc`) or
    by a space and the offset (`Display`; `UTC` for `Utc`).
-/
import Chrono.Spec.TimeSpec
import Chrono.Spec.DateSpec
import Chrono.Model.DateTime
namespace Chrono.Spec.Text
open Chrono.M

/-- `n` written with exactly `w` decimal digits (most significant first; high digits are dropped
if `n ≥ 10^w`, which never happens below) -/
def decN : Nat → Nat → List Nat
  | 0, _ => []
  | w + 1, n => decN w (n / 10) ++ [48 + n % 10]

/-- digits needed for a year magnitude below 10^6 (every year chrono supports), at least four -/
def yearWidth (n : Nat) : Nat := if n < 10000 then 4 else if n < 100000 then 5 else 6

/-- the year: four digits and no sign exactly for 0..=9999, else explicit sign and magnitude -/
def yearText (y : Int) : List Nat :=
  if 0 ≤ y ∧ y ≤ 9999 then decN 4 y.toNat
  else (if y < 0 then 45 else 43) :: decN (yearWidth y.natAbs) y.natAbs

def dateText (y : Int) (m d : Nat) : List Nat := yearText y ++ [45] ++ decN 2 m ++ [45] ++ decN 2 d

/-- the text of a packed date: its year, and the month and day of its ordinal -/
def dateTextOf (d : Date) : List Nat :=
  dateText d.year (monthOfYo d.year d.ordinal.toNat) (dayOfYo d.year d.ordinal.toNat)

/-- number of fraction digits: the fewest of 0, 3, 6, 9 that lose nothing -/
def fracDigits (nano : Nat) : Nat :=
  if nano % 1000000000 = 0 then 0 else if nano % 1000000 = 0 then 3 else if nano % 1000 = 0 then 6 else 9

/-- the fraction of a second, `nano < 10^9` -/
def fracText (nano : Nat) : List Nat :=
  if fracDigits nano = 0 then [] else 46 :: decN (fracDigits nano) (nano / 10 ^ (9 - fracDigits nano))

/-- the second field as printed: a leap second (fraction field ≥ 10^9) is second + 1 -/
def shownSecond (t : Time) : Nat := (secondOf t).toNat + (if t.frac ≥ 1000000000 then 1 else 0)
/-- the sub-second part of the fraction field -/
def shownNano (t : Time) : Nat := (t.frac % 1000000000).toNat

def timeText (t : Time) : List Nat :=
  decN 2 (hourOf t).toNat ++ [58] ++ decN 2 (minuteOf t).toNat ++ [58] ++ decN 2 (shownSecond t) ++
    fracText (shownNano t)

/-- date, separator (`T` = 84 in `Debug`, space = 32 in `Display`), time -/
def naiveText (sep : Nat) (dt : NaiveDT) : List Nat := dateTextOf dt.date ++ (sep :: timeText dt.time)

/-- `+hh:mm` for a whole-minute offset of less than a day -/
def offsetText (off : Int) : List Nat :=
  (if off < 0 then 45 else 43) :: (decN 2 (off.natAbs / 3600) ++ [58] ++ decN 2 (off.natAbs / 60 % 60))

/-- a whole-minute offset of less than a day: what the property quantifies over -/
def WholeMinute (off : Int) : Prop := -86400 < off ∧ off < 86400 ∧ off % 60 = 0

end Chrono.Spec.Text
