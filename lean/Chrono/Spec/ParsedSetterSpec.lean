/-
  Specification of the `Parsed::set_*` methods (C14): what a setter with accepted argument range
  `[lo, hi]` for the field `get` does, for EVERY prior record and EVERY integer argument — negative
  values and the `i64` extremes included (arguments are unbounded integers here).
-/
import Chrono.Model.ParsedCore
namespace Chrono.Spec.Fields
open Chrono.M

/-- the setter `set` of the field `get`, storing `store v` for the argument `v`, accepting exactly the
arguments in `[lo, hi]`:
* an argument outside the range is refused with OUT_OF_RANGE, whatever the record holds;
* an argument in the range is accepted iff the field is unset or already holds that value, the result
  being the record with that one field set (nothing else changes);
* otherwise (the field holds a different value) it is refused with IMPOSSIBLE. -/
def SetterSpec (lo hi : Int) (get : Parsed → Option Int) (store : Int → Int)
    (set : Parsed → Int → PRes Parsed) (upd : Parsed → Option Int → Parsed) : Prop :=
  ∀ (p : Parsed) (v : Int),
    (¬ (lo ≤ v ∧ v ≤ hi) → set p v = .error .outOfRange) ∧
    (lo ≤ v ∧ v ≤ hi → (get p = none ∨ get p = some (store v)) → set p v = .ok (upd p (some (store v)))) ∧
    (lo ≤ v ∧ v ≤ hi → ¬ (get p = none ∨ get p = some (store v)) → set p v = .error .impossible)

/-- the hour of day denoted by the two hour fields -/
def hourOfFields (div mod : Int) : Int := div * 12 + mod

end Chrono.Spec.Fields
