/-
  Specification side for C17, on plain integers (`s` = nanoseconds since the Unix epoch on the
  wall-clock reading, `span` > 0).  `%` is the Euclidean remainder (0 ≤ s % span < span).
  Proofs/RoundL.lean shows that these closed forms are what the property statement says:
  the greatest multiple not after `s`, the least multiple not before `s`, the nearer of the two
  with ties going up.
-/
namespace Chrono.Spec.Round

/-- greatest multiple of `span` not after `s` -/
def truncSpec (s span : Int) : Int := s - s % span

/-- least multiple of `span` not before `s` -/
def upSpec (s span : Int) : Int := s + (-s) % span

/-- the nearer of the two; a tie goes up -/
def roundSpec (s span : Int) : Int :=
  if upSpec s span - s ≤ s - truncSpec s span then upSpec s span else truncSpec s span

/-- which of the three results -/
inductive Kind where
  | trunc | round | up
  deriving DecidableEq, Repr

def specOf : Kind → Int → Int → Int
  | .trunc => truncSpec
  | .round => roundSpec
  | .up => upSpec

/-- the 64-bit window of nanosecond stamps and spans -/
def InI64 (x : Int) : Prop := -9223372036854775808 ≤ x ∧ x ≤ 9223372036854775807
instance (x : Int) : Decidable (InI64 x) := by unfold InI64; exact inferInstance

/-- the span for `digits` sub-second digits: 10^(9 − min 9 digits) -/
def digitSpan (digits : Nat) : Int := 10 ^ (9 - min 9 digits)

/-- sub-second results as (nanosecond field, carried seconds): a value `v` on the line of the current
second, which starts at `base` (0, or 10⁹ inside a leap second) and ends at `base + 10⁹` -/
def fieldOf (base v : Int) : Int × Int :=
  if v = base + 1000000000 then (0, 1) else (v, 0)

def leapBase (frac : Int) : Int := if frac ≥ 1000000000 then 1000000000 else 0

def truncSubsecSpec (frac : Int) (digits : Nat) : Int × Int :=
  fieldOf (leapBase frac) (truncSpec frac (digitSpan digits))

def roundSubsecSpec (frac : Int) (digits : Nat) : Int × Int :=
  fieldOf (leapBase frac) (roundSpec frac (digitSpan digits))

/-- the specified `(field, carried seconds)` pair and the specified signed move of
`round_subsecs` (`round = true`) / `trunc_subsecs` -/
def subsecSpec (round : Bool) (frac : Int) (digits : Nat) : Int × Int :=
  if round then roundSubsecSpec frac digits else truncSubsecSpec frac digits
def subsecMove (round : Bool) (frac : Int) (digits : Nat) : Int :=
  (if round then roundSpec frac (digitSpan digits) else truncSpec frac (digitSpan digits)) - frac

end Chrono.Spec.Round
