/-
  Specification side for C17, on plain integers (`s` = nanoseconds since the Unix epoch on the
  wall-clock reading, `span` > 0).  `%` is the Euclidean remainder (0 ≤ s % span < span).
  Proofs/RoundL.lean shows that these closed forms are what the property statement says:
  the greatest multiple not after `s`, the least multiple not before `s`, the nearer of the two
  with ties going up.
-/
namespace Chrono.Spec.Round

/-- greatest multiple of `span` not after `s` -/
def truncSpec (s span : Int) : Int := s - s % span

/-- least multiple of `span` not before `s` -/
def upSpec (s span : Int) : Int := s + (-s) % span

/-- the nearer of the two; a tie goes up -/
def roundSpec (s span : Int) : Int :=
  if upSpec s span - s ≤ s - truncSpec s span then upSpec s span else truncSpec s span

/-- which of the three results -/
inductive Kind where
  | trunc | round | up
  deriving DecidableEq, Repr

def specOf : Kind → Int → Int → Int
  | .trunc => truncSpec
  | .round => roundSpec
  | .up => upSpec

/-- the 64-bit window of nanosecond stamps and spans -/
def InI64 (x : Int) : Prop := -9223372036854775808 ≤ x ∧ x ≤ 9223372036854775807
instance (x : Int) : Decidable (InI64 x) := by unfold InI64; exact inferInstance

/-- "the nanosecond timestamp of the reading `(ts, sub)` fits in 64 bits" as `timestamp_nanos_opt`
decides it: the wall-clock line position `ts·10⁹ + sub` is an `i64` and, for a negative `ts`, so is
`(ts + 1)·10⁹`.  For a non-leap field (`sub < 10⁹`) the second condition follows from the first; with
a leap-second field it excludes the readings with `ts = −9223372038` (1677-09-21T00:12:42 wall clock),
whose line position `≥ i64::MIN` is nevertheless refused. -/
def stampOk (ts sub : Int) : Prop :=
  InI64 (ts * 1000000000 + sub) ∧ (ts < 0 → -9223372036854775808 ≤ (ts + 1) * 1000000000)
instance (ts sub : Int) : Decidable (stampOk ts sub) := by unfold stampOk; exact inferInstance

/-- the span for `digits` sub-second digits: 10^(9 − min 9 digits) -/
def digitSpan (digits : Nat) : Int := 10 ^ (9 - min 9 digits)

/-- sub-second results as (nanosecond field, carried seconds): a value `v` on the line of the current
second, which starts at `base` (0, or 10⁹ inside a leap second) and ends at `base + 10⁹` -/
def fieldOf (base v : Int) : Int × Int :=
  if v = base + 1000000000 then (0, 1) else (v, 0)

def leapBase (frac : Int) : Int := if frac ≥ 1000000000 then 1000000000 else 0

def truncSubsecSpec (frac : Int) (digits : Nat) : Int × Int :=
  fieldOf (leapBase frac) (truncSpec frac (digitSpan digits))

def roundSubsecSpec (frac : Int) (digits : Nat) : Int × Int :=
  fieldOf (leapBase frac) (roundSpec frac (digitSpan digits))

end Chrono.Spec.Round
