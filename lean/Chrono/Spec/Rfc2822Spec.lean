/-
  Specification side for C11: the RFC 2822 date-time syntax the reader is meant to accept (current
  and obsolete forms), what a string of that syntax denotes, and the standard form the writer is
  meant to produce.  Nothing here looks at chrono's scanners: the syntax is a relation between a byte
  string (UTF-8) and the fields it spells, built from concatenation only.

  Syntax (`S` = one of the 25 Unicode `White_Space` code points, in UTF-8; names in any letter case):

      date-time = *S [ day-name "," ] *S 1*2DIGIT 1*S month-name 1*S 2*DIGIT 1*S
                  2DIGIT *S ":" *S 2DIGIT [ *S ":" 2DIGIT ] 1*S zone *( *S comment )
      zone      = ( "+" / "-" ) 2DIGIT ( "0"-"5" ) DIGIT / "UT" / "GMT" / "EST" / "EDT" / "CST" / "CDT" /
                  "MST" / "MDT" / "PST" / "PDT" / ALPHA-except-J
      comment   = "(" *( comment / "\" byte / byte-except-"(" ")" "\" ) ")"

  This is the comment block of `parse_rfc2822` (src/format/parse.rs) with the places made explicit
  where the standard form `Www, D Mon YYYY HH:MM:SS +HHMM` has a space (`1*S`), plus the optional
  white space chrono additionally tolerates (`*S`).  Two places where the comment block promises
  more than the property asks for, and the code does not deliver, are NOT in the relation: white
  space between the second ":" and the seconds, and white space after the last comment / after the
  zone at the very end of the input (both are rejected by the code; the property statement speaks of
  "runs of white space wherever the standard form has a space" only).  Comments are described on
  bytes: a multi-byte character is a run of bytes ≥ 128, none of which is a parenthesis or a
  backslash, so for valid UTF-8 the byte-level and the character-level grammar coincide.
-/
import Chrono.Model.Weekday
import Chrono.Model.DateTime
import Chrono.Spec.ZonedSpec
namespace Chrono.Spec.Rfc2822
open Chrono.M Chrono.Spec Chrono.Extracted

/-! ### lexical classes -/

/-- UTF-8 encodings of the 25 code points with the Unicode property `White_Space`
(U+0009–000D, 0020, 0085, 00A0, 1680, 2000–200A, 2028, 2029, 202F, 205F, 3000) -/
def WS : List (List Nat) :=
  [[9], [10], [11], [12], [13], [32], [194, 133], [194, 160], [225, 154, 128],
   [226, 128, 128], [226, 128, 129], [226, 128, 130], [226, 128, 131], [226, 128, 132],
   [226, 128, 133], [226, 128, 134], [226, 128, 135], [226, 128, 136], [226, 128, 137],
   [226, 128, 138], [226, 128, 168], [226, 128, 169], [226, 128, 175], [226, 129, 159],
   [227, 128, 128]]

/-- `*S` -/
inductive Ws : List Nat → Prop
  | nil : Ws []
  | cons (w r : List Nat) : w ∈ WS → Ws r → Ws (w ++ r)

/-- `1*S` -/
def Ws1 (s : List Nat) : Prop := ∃ w r, w ∈ WS ∧ Ws r ∧ s = w ++ r

/-- ASCII digits -/
def Digits (ds : List Nat) : Prop := ∀ b ∈ ds, 48 ≤ b ∧ b ≤ 57
instance (ds : List Nat) : Decidable (Digits ds) := by unfold Digits; exact inferInstance

/-- the number a digit string spells -/
def decVal (ds : List Nat) : Nat := ds.foldl (fun a b => a * 10 + (b - 48)) 0

/-- ASCII lower-casing of one byte -/
def lower (b : Nat) : Nat := if 65 ≤ b ∧ b ≤ 90 then b + 32 else b

/-- `v` spells the lower-case word `word` in some mixture of letter cases -/
def CaseOf (word v : List Nat) : Prop := v.map lower = word
instance (word v : List Nat) : Decidable (CaseOf word v) := by unfold CaseOf; exact inferInstance

def isAlpha (b : Nat) : Prop := (65 ≤ b ∧ b ≤ 90) ∨ (97 ≤ b ∧ b ≤ 122)
instance (b : Nat) : Decidable (isAlpha b) := by unfold isAlpha; exact inferInstance

/-- "mon" … "sun" -/
def dayNames : List (List Nat) :=
  [[109, 111, 110], [116, 117, 101], [119, 101, 100], [116, 104, 117], [102, 114, 105],
   [115, 97, 116], [115, 117, 110]]
/-- "jan" … "dec" -/
def monthNames : List (List Nat) :=
  [[106, 97, 110], [102, 101, 98], [109, 97, 114], [97, 112, 114], [109, 97, 121], [106, 117, 110],
   [106, 117, 108], [97, 117, 103], [115, 101, 112], [111, 99, 116], [110, 111, 118], [100, 101, 99]]

def weekdays : List Weekday := [.mon, .tue, .wed, .thu, .fri, .sat, .sun]

/-- `[ day-name "," ]` -/
def DayName (dn : List Nat) (wd : Option Weekday) : Prop :=
  (dn = [] ∧ wd = none) ∨
  ∃ i v, i < 7 ∧ CaseOf (dayNames.getD i []) v ∧ dn = v ++ [44] ∧ wd = weekdays[i]?

/-- `month-name`, denoting month `m` (1 = January) -/
def MonthName (mn : List Nat) (m : Nat) : Prop :=
  ∃ i, i < 12 ∧ CaseOf (monthNames.getD i []) mn ∧ m = i + 1

/-- the year rule of RFC 2822 §4.3: two digits 00–49 → 20xx, 50–99 → 19xx, three digits → +1900,
four or more digits are the year itself -/
def yearOf (ds : List Nat) : Int :=
  if ds.length = 2 then (if decVal ds ≤ 49 then (decVal ds : Int) + 2000 else (decVal ds : Int) + 1900)
  else if ds.length = 3 then (decVal ds : Int) + 1900
  else (decVal ds : Int)

/-- `[ *S ":" 2DIGIT ]` -/
def Seconds (ss : List Nat) (sec : Option Nat) : Prop :=
  (ss = [] ∧ sec = none) ∨
  ∃ w d, Ws w ∧ Digits d ∧ d.length = 2 ∧ ss = w ++ (58 :: d) ∧ sec = some (decVal d)

/-- "ut", "gmt" and the North American names of RFC 2822 §4.3 with their hours east of UTC -/
def zoneTable : List (List Nat × Int) :=
  [([117, 116], 0), ([103, 109, 116], 0), ([101, 115, 116], -5), ([101, 100, 116], -4),
   ([99, 115, 116], -6), ([99, 100, 116], -5), ([109, 115, 116], -7), ([109, 100, 116], -6),
   ([112, 115, 116], -8), ([112, 100, 116], -7)]

/-- `zone`, denoting an offset in seconds east of UTC -/
inductive Zone : List Nat → Int → Prop
  /-- `+HHMM` / `-HHMM` with MM < 60 -/
  | num (neg : Bool) (h1 h2 m1 m2 : Nat) (hh1 : 48 ≤ h1 ∧ h1 ≤ 57) (hh2 : 48 ≤ h2 ∧ h2 ≤ 57)
      (hm1 : 48 ≤ m1 ∧ m1 ≤ 53) (hm2 : 48 ≤ m2 ∧ m2 ≤ 57) :
      Zone [if neg then 45 else 43, h1, h2, m1, m2]
        ((if neg then -1 else 1) *
          ((((h1 - 48) * 10 + (h2 - 48) : Nat) : Int) * 3600 + (((m1 - 48) * 10 + (m2 - 48) : Nat) : Int) * 60))
  /-- a name of the table, in any letter case -/
  | name (v nm : List Nat) (hours : Int) : (nm, hours) ∈ zoneTable → CaseOf nm v → Zone v (hours * 3600)
  /-- a single military letter (any letter but J): read as +0000 -/
  | military (c : Nat) : isAlpha c → lower c ≠ 106 → Zone [c] 0

/-- the text between the parentheses of a comment -/
inductive CText : List Nat → Prop
  | nil : CText []
  | char (c : Nat) (t : List Nat) : c ≠ 40 → c ≠ 41 → c ≠ 92 → CText t → CText (c :: t)
  | esc (c : Nat) (t : List Nat) : CText t → CText (92 :: c :: t)
  | nest (a t : List Nat) : CText a → CText t → CText (40 :: (a ++ 41 :: t))

/-- `*( *S comment )` -/
inductive Comments : List Nat → Prop
  | nil : Comments []
  | cons (w a r : List Nat) : Ws w → CText a → Comments r → Comments (w ++ (40 :: (a ++ 41 :: r)))

/-! ### fields and denotation -/

structure Fields where
  weekday : Option Weekday
  day : Nat
  month : Nat
  year : Int
  hour : Nat
  min : Nat
  sec : Option Nat
  off : Int

/-- the date-time syntax: `s` spells the fields `f` -/
def Rfc2822 (s : List Nat) (f : Fields) : Prop :=
  ∃ w0 dn w1 dd w2 mn w3 yy w4 hh w5 w6 mm ss w7 zz cc,
    Ws w0 ∧ DayName dn f.weekday ∧ Ws w1 ∧
    Digits dd ∧ (dd.length = 1 ∨ dd.length = 2) ∧ decVal dd = f.day ∧
    Ws1 w2 ∧ MonthName mn f.month ∧ Ws1 w3 ∧
    Digits yy ∧ 2 ≤ yy.length ∧ yearOf yy = f.year ∧ Ws1 w4 ∧
    Digits hh ∧ hh.length = 2 ∧ decVal hh = f.hour ∧ Ws w5 ∧ Ws w6 ∧
    Digits mm ∧ mm.length = 2 ∧ decVal mm = f.min ∧
    Seconds ss f.sec ∧ Ws1 w7 ∧ Zone zz f.off ∧ Comments cc ∧
    s = w0 ++ (dn ++ (w1 ++ (dd ++ (w2 ++ (mn ++ (w3 ++ (yy ++ (w4 ++ (hh ++ (w5 ++
          (58 :: (w6 ++ (mm ++ (ss ++ (w7 ++ (zz ++ cc))))))))))))))))

/-- the seconds field, 0 when omitted -/
def secOf (f : Fields) : Nat := f.sec.getD 0

/-- whole seconds from 1970-01-01T00:00:00 (same wall clock) to the wall-clock reading the fields
spell; a second field of 60 is the leap second after second 59 -/
def localSecs (f : Fields) : Int :=
  (dayNum f.year f.month f.day - EPOCH_DAY) * 86400 + (f.hour : Int) * 3600 + (f.min : Int) * 60
    + (if secOf f = 60 then 59 else (secOf f : Int))

/-- the fields spell an existing wall-clock reading of the supported range, the day-name (if any) is
that of the date, the offset is less than a day, and the UTC reading is inside the supported range -/
def Valid (f : Fields) : Prop :=
  MIN_YEAR ≤ f.year ∧ f.year ≤ MAX_YEAR ∧ validYmd f.year f.month f.day = true ∧
  (∀ w, f.weekday = some w → (w.toNat : Int) = weekdayOf (dayNum f.year f.month f.day)) ∧
  f.hour ≤ 23 ∧ f.min ≤ 59 ∧ secOf f ≤ 60 ∧ OffValid f.off ∧ InRangeSecs (localSecs f - f.off)

/-- the zone-aware value the fields denote: that offset, the instant `wall clock − offset`, whole
seconds, the leap-second representation exactly for a second field of 60 -/
def Denotes (f : Fields) (z : Zoned) : Prop :=
  z.off = f.off ∧ instSecs z.utc = localSecs f - f.off ∧
  z.utc.time.frac = (if secOf f = 60 then 1000000000 else 0) ∧ ZInv z

/-! ### the standard form the writer produces -/

/-- two decimal digits -/
def dec2 (n : Nat) : List Nat := [48 + n / 10, 48 + n % 10]
/-- "Mon" … "Sun" and "Jan" … "Dec" -/
def dayNamesCap : List (List Nat) :=
  [[77, 111, 110], [84, 117, 101], [87, 101, 100], [84, 104, 117], [70, 114, 105], [83, 97, 116], [83, 117, 110]]
def monthNamesCap : List (List Nat) :=
  [[74, 97, 110], [70, 101, 98], [77, 97, 114], [65, 112, 114], [77, 97, 121], [74, 117, 110],
   [74, 117, 108], [65, 117, 103], [83, 101, 112], [79, 99, 116], [78, 111, 118], [68, 101, 99]]

/-- `Www, D Mon YYYY HH:MM:SS +HHMM` for fields with a day-name, a seconds field, a year in
0–9999 and a whole-minute offset -/
def stdText (f : Fields) : List Nat :=
  let wd := match f.weekday with | some w => dayNamesCap.getD w.toNat [] | none => []
  let dd := if f.day < 10 then [48 + f.day] else dec2 f.day
  let a := f.off.natAbs
  wd ++ [44, 32] ++ dd ++ [32] ++ monthNamesCap.getD (f.month - 1) [] ++ [32] ++
    dec2 (f.year.toNat / 100) ++ dec2 (f.year.toNat % 100) ++ [32] ++
    dec2 f.hour ++ [58] ++ dec2 f.min ++ [58] ++ dec2 (secOf f) ++ [32] ++
    [if f.off < 0 then 45 else 43] ++ dec2 (a / 3600) ++ dec2 (a / 60 % 60)

/-! ### the wall-clock fields of a zone-aware value (what the writer shows) -/

/-- the standard form up to and including the space before the zone -/
def stdHead (f : Fields) : List Nat :=
  let wd := match f.weekday with | some w => dayNamesCap.getD w.toNat [] | none => []
  let dd := if f.day < 10 then [48 + f.day] else dec2 f.day
  wd ++ [44, 32] ++ dd ++ [32] ++ monthNamesCap.getD (f.month - 1) [] ++ [32] ++
    dec2 (f.year.toNat / 100) ++ dec2 (f.year.toNat % 100) ++ [32] ++
    dec2 f.hour ++ [58] ++ dec2 f.min ++ [58] ++ dec2 (secOf f) ++ [32]

/-- how `write_rfc2822` shows an offset: sign of the offset itself, then hours and minutes of the
offset ROUNDED to the nearest minute (ties away from zero) — for a whole-minute offset simply
`±HHMM`; an offset with seconds such as −00:00:20 is shown as `-0000`, +23:59:40 as `+2400` -/
def shownZone (off : Int) : List Nat :=
  let m := (off.natAbs + 30) / 60
  [if off < 0 then 45 else 43] ++ dec2 (m / 60) ++ dec2 (m % 60)

/-- the weekday (as a `Weekday`) of a day number -/
def weekdayAt (n : Int) : Option Weekday := weekdays[(weekdayOf n).toNat]?

/-- the fields of the wall-clock reading "day `o` of year `Y`, second `sod` of the day, nanosecond
field `frac`" at offset `off`: a leap-second representation shows as one second more (60 on :59) -/
def wallFields (Y : Int) (o : Nat) (sod frac off : Int) : Fields :=
  ⟨weekdayAt (dayNumYo Y o), dayOfYo Y o, monthOfYo Y o, Y, (sod / 3600).toNat, (sod / 60 % 60).toNat,
   some ((sod % 60).toNat + (if frac ≥ 1000000000 then 1 else 0)), off⟩

/-- `(Y, o)` is the wall-clock date of `z`: the day with day number `epoch day + ⌊(instant + offset) / 86400⌋` -/
def WallDate (z : Zoned) (Y : Int) (o : Nat) : Prop :=
  1 ≤ o ∧ o ≤ yearLen Y ∧ dayNumYo Y o = EPOCH_DAY + wallSecs z / 86400

/-- the wall-clock fields of `z`, given its wall-clock date -/
def fieldsOf (z : Zoned) (Y : Int) (o : Nat) : Fields :=
  wallFields Y o (wallSecs z % 86400) z.utc.time.frac z.off

/-- `z` to whole seconds, a leap second kept -/
def truncSecs (z : Zoned) : Zoned :=
  ⟨⟨z.utc.date, ⟨z.utc.time.secs, if z.utc.time.frac ≥ 1000000000 then 1000000000 else 0⟩⟩, z.off⟩

/-- the whole second after `z`'s second, same day, no sub-second part (meaningful when
`z.utc.time.secs < 86399`) -/
def nextSec (z : Zoned) : Zoned :=
  ⟨⟨z.utc.date, ⟨z.utc.time.secs + 1, 0⟩⟩, z.off⟩

/-- `z` carries the leap-second representation (nanosecond field ≥ 10⁹) on a second other than :59 of
a minute — a value no public constructor but `with_nanosecond` builds.  Its instant is `secs + 1 +
(frac − 10⁹)/10⁹`: to whole seconds, the FOLLOWING second. -/
def InbandLeap (z : Zoned) : Prop := z.utc.time.frac ≥ 1000000000 ∧ z.utc.time.secs % 60 ≠ 59
instance (z : Zoned) : Decidable (InbandLeap z) := by unfold InbandLeap; exact inferInstance

/-- what the standard form of `z` reads back as: `z` to whole seconds with a leap second (on :59)
kept, and for the in-band leap representation on another second the following whole second -/
def readBack (z : Zoned) : Zoned := if InbandLeap z then nextSec z else truncSecs z

/-! ### the white-space table against Unicode -/

/-- the code points with the Unicode property `White_Space` (PropList.txt): U+0009–000D, 0020, 0085,
00A0, 1680, 2000–200A, 2028, 2029, 202F, 205F, 3000 -/
def WS_CODEPOINTS : List Nat :=
  [0x9, 0xA, 0xB, 0xC, 0xD, 0x20, 0x85, 0xA0, 0x1680, 0x2000, 0x2001, 0x2002, 0x2003, 0x2004, 0x2005, 0x2006,
   0x2007, 0x2008, 0x2009, 0x200A, 0x2028, 0x2029, 0x202F, 0x205F, 0x3000]

/-- UTF-8 encoding of a code point below U+10000 (RFC 3629) -/
def utf8Enc (cp : Nat) : List Nat :=
  if cp < 0x80 then [cp]
  else if cp < 0x800 then [0xC0 + cp / 64, 0x80 + cp % 64]
  else [0xE0 + cp / 4096, 0x80 + cp / 64 % 64, 0x80 + cp % 64]

/-- `n` comments nested in each other: `((( … )))` without the outermost pair -/
def nestText : Nat → List Nat
  | 0 => []
  | n + 1 => 40 :: (nestText n ++ [41])

end Chrono.Spec.Rfc2822
