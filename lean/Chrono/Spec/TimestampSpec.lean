/-
  Specification side for C02.  A UTC date-time denotes the integer `instSecs` (whole seconds since
  1970-01-01T00:00:00Z, by the closed-form day number of Spec/Calendar.lean) plus its nanosecond field;
  `instNs` is the same in nanoseconds (Spec/InstantSpec.lean).  Here: the representable range, the
  acceptance rule for the nanosecond field, the i64 window, and `SystemTime` as an instant.
  Nothing here looks at chrono's code.
-/
import Chrono.Spec.InstantSpec
namespace Chrono.Spec.Ts
open Chrono.M Chrono.Extracted Chrono.Spec

/-- first second of the first representable day, last second of the last one -/
def TS_MIN : Int := (dayNumYo MIN_YEAR 1 - EPOCH_DAY) * 86400
def TS_MAX : Int := (dayNumYo MAX_YEAR 365 - EPOCH_DAY) * 86400 + 86399

/-- the nanosecond field is acceptable for second `secs`: below 10⁹, or a leap-second representation
(10⁹ ≤ n < 2·10⁹) on second 59 of a minute -/
def nanosOk (secs nsecs : Int) : Prop :=
  nsecs < 1000000000 ∨ (nsecs < 2000000000 ∧ secs % 60 = 59)
instance (s n : Int) : Decidable (nanosOk s n) := by unfold nanosOk; exact inferInstance

/-- `(secs, nsecs)` names a representable UTC date-time -/
def tsOk (secs nsecs : Int) : Prop := TS_MIN ≤ secs ∧ secs ≤ TS_MAX ∧ nanosOk secs nsecs
instance (s n : Int) : Decidable (tsOk s n) := by unfold tsOk; exact inferInstance

/-- machine domains of the arguments -/
def isI64 (x : Int) : Prop := -9223372036854775808 ≤ x ∧ x ≤ 9223372036854775807
def isU32 (x : Int) : Prop := 0 ≤ x ∧ x ≤ 4294967295
instance (x : Int) : Decidable (isI64 x) := by unfold isI64; exact inferInstance
instance (x : Int) : Decidable (isU32 x) := by unfold isU32; exact inferInstance

/-- `dt` is the value `secs` seconds from the epoch with nanosecond field `nsecs` -/
def IsAt (dt : NaiveDT) (secs nsecs : Int) : Prop :=
  NDTInv dt ∧ TStrict dt.time ∧ instSecs dt = secs ∧ dt.time.frac = nsecs

/-- a value as the public constructors build it (leap representation only on a second 59) -/
def NDTStrict (dt : NaiveDT) : Prop := NDTInv dt ∧ TStrict dt.time
instance (dt : NaiveDT) : Decidable (NDTInv dt) := by unfold NDTInv; exact inferInstance
instance (dt : NaiveDT) : Decidable (NonLeap dt) := by unfold NonLeap; exact inferInstance
instance (dt : NaiveDT) : Decidable (NDTStrict dt) := by unfold NDTStrict; exact inferInstance

/-- the value with the sub-second part cut down to a multiple of `q` nanoseconds -/
def truncFrac (dt : NaiveDT) (q : Int) : NaiveDT := ⟨dt.date, ⟨dt.time.secs, dt.time.frac / q * q⟩⟩

/-- a `SystemTime` `(S, N)` (whole seconds toward −∞ from the epoch, `0 ≤ N < 10⁹`) as nanoseconds -/
def stNs (p : Int × Int) : Int := p.1 * 1000000000 + p.2
def stValid (p : Int × Int) : Prop := isI64 p.1 ∧ 0 ≤ p.2 ∧ p.2 < 1000000000

end Chrono.Spec.Ts
