/- Specification side for C06: a duration is an integer number of nanoseconds in a closed range. -/
import Chrono.Model.Delta
namespace Chrono.Spec
open Chrono.M

/-- the exact number of nanoseconds a `(secs, nanos)` pair denotes -/
def ns (d : Delta) : Int := d.secs * 1000000000 + d.nanos

/-- ±(2^63 − 1) milliseconds, in nanoseconds -/
def NS_MAX : Int := 9223372036854775807 * 1000000
def nsInRange (n : Int) : Prop := -NS_MAX ≤ n ∧ n ≤ NS_MAX
instance (n : Int) : Decidable (nsInRange n) := by unfold nsInRange; exact inferInstance

/-- representation invariant -/
def DInv (d : Delta) : Prop := 0 ≤ d.nanos ∧ d.nanos < 1000000000 ∧ nsInRange (ns d)
instance (d : Delta) : Decidable (DInv d) := by unfold DInv; exact inferInstance

/-- the unique representation of an in-range nanosecond count -/
def ofNs (n : Int) : Delta := ⟨n / 1000000000, n % 1000000000⟩

end Chrono.Spec
