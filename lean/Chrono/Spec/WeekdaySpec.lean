/-
  Specification side for C19: a weekday set is a set of weekdays (membership predicate), cyclic
  order from a start day, names in canonical lower case.
-/
import Chrono.Model.Weekday

namespace Chrono.Spec
open Chrono.M

/-- membership in the mathematical set denoted by the word `s` -/
def mem (s : Nat) (d : Weekday) : Bool := s.testBit d.toNat

/-- the seven weekdays in cyclic order starting at `start` -/
def cyclicFrom (start : Weekday) : List Weekday :=
  [start, start.succ, start.succ.succ, start.succ.succ.succ, start.succ.succ.succ.succ,
   start.succ.succ.succ.succ.succ, start.succ.succ.succ.succ.succ.succ]

/-- members of `s` in cyclic weekday order from `start` -/
def forward (s : Nat) (start : Weekday) : List Weekday := (cyclicFrom start).filter (mem s)

/-- number of members -/
def card (s : Nat) : Nat := (Weekday.all.filter (mem s)).length

/-- iterate `f` `n` times -/
def iter {α} (f : α → α) : Nat → α → α
  | 0, a => a
  | n + 1, a => iter f n (f a)

/-- the `k`-th schedule of front/back pulls of length 7 (bit `i` of `k` = pull `i` is from the front) -/
def schedule (k : Nat) : List Bool :=
  [k.testBit 0, k.testBit 1, k.testBit 2, k.testBit 3, k.testBit 4, k.testBit 5, k.testBit 6]

/-- one-step contract of the iterator on `⟨s, start⟩`, as a decidable check: a front pull returns
the head of the forward sequence and leaves the set whose forward sequence is the tail; a back pull
returns the last element and leaves the set whose forward sequence is the rest -/
def stepOk (s : Nat) (start : Weekday) : Bool :=
  let it : WeekdaySet.Iter := ⟨s, start⟩
  (match forward s start with
   | [] => it.next == .ok (none, it)
   | d :: t => it.next == .ok (some d, ⟨(WeekdaySet.remove s d).1, start⟩) &&
       forward (WeekdaySet.remove s d).1 start == t && decide ((WeekdaySet.remove s d).1 < 128)) &&
  (match (forward s start).reverse with
   | [] => it.next_back == .ok (none, it)
   | d :: t => it.next_back == .ok (some d, ⟨(WeekdaySet.remove s d).1, start⟩) &&
       forward (WeekdaySet.remove s d).1 start == t.reverse &&
       decide ((WeekdaySet.remove s d).1 < 128))

/-- canonical lower-case short and long names -/
def weekdayShort (w : Weekday) : List Nat := Extracted.SHORT_WEEKDAYS.getD w.toNat []
def weekdayLong (w : Weekday) : List Nat :=
  weekdayShort w ++ Extracted.LONG_WEEKDAY_SUFFIXES.getD w.toNat []
def monthShort (m : Month) : List Nat := Extracted.SHORT_MONTHS.getD m.toNat []
def monthLong (m : Month) : List Nat := monthShort m ++ Extracted.LONG_MONTH_SUFFIXES.getD m.toNat []

/-- every byte is a lower-case ASCII letter -/
def allLowerAlpha (s : List Nat) : Bool := s.all (fun c => decide (97 ≤ c) && decide (c ≤ 122))

end Chrono.Spec
