/-
  Vocabulary for C08's operator forms and for the constructors' view of time-field replacement.
-/
import Chrono.Spec.TimeSpec
namespace Chrono.Spec
open Chrono.M

/-- what `Option::expect` makes of a checked result: the value, or a panic exactly on `None` -/
def orPanic {α} (r : Option α) : Res α :=
  match r with
  | some a => .ok a
  | none => .panic

/-- the answer of the public constructor `from_hms_nano_opt` for four fields, in the property's own terms
(`okFields`: hour < 24, minute < 60, second < 60, nanosecond < 10⁹ or — on second 59 only — < 2·10⁹) -/
def ctorTime (h m s n : Int) : Option Time := if okFields h m s n then some (ofFields h m s n) else none

end Chrono.Spec
