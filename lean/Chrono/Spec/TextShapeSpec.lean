/-
  Specification side for C09, shape clause: what the property statement says the printed form looks
  like, as predicates on a byte string — independent of `Spec.Text.decN` / `yearText` / `fracText`
  (Spec/TextFormsSpec.lean), which write the text down constructively, and of chrono's writers.

  "The printed form uses the fewest of 0, 3, 6 or 9 fractional digits that lose nothing, an explicit
  sign exactly for years outside 0-9999, and second 60 for a leap second."
-/
import Chrono.Spec.TimeSpec
namespace Chrono.Spec.Shape
open Chrono.M

/-- every byte is an ASCII digit -/
def IsDigits (ds : List Nat) : Prop := ∀ c ∈ ds, 48 ≤ c ∧ c ≤ 57
/-- the number a digit string denotes -/
def digitsVal (ds : List Nat) : Nat := ds.foldl (fun a c => a * 10 + (c - 48)) 0

/-- exactly two digits denoting `v` -/
def TwoDigits (v : Nat) (s : List Nat) : Prop := s.length = 2 ∧ IsDigits s ∧ digitsVal s = v

/-- the year: digits denoting |y|, at least four of them and no more than needed (no leading zero
beyond the fourth digit); preceded by `-` exactly when y < 0, by `+` exactly when y > 9999, by
nothing exactly when 0 ≤ y ≤ 9999 -/
def YearShape (y : Int) (s : List Nat) : Prop :=
  ∃ sign ds, s = sign ++ ds ∧ IsDigits ds ∧ digitsVal ds = y.natAbs ∧ 4 ≤ ds.length ∧
    (4 < ds.length → ds.head? ≠ some 48) ∧
    (sign = [45] ↔ y < 0) ∧ (sign = [43] ↔ 9999 < y) ∧ (sign = [] ↔ (0 ≤ y ∧ y ≤ 9999))

/-- `[sign]YYYY-MM-DD` -/
def DateShape (y : Int) (m d : Nat) (s : List Nat) : Prop :=
  ∃ ys ms ds, s = ys ++ 45 :: (ms ++ 45 :: ds) ∧ YearShape y ys ∧ TwoDigits m ms ∧ TwoDigits d ds

/-- the fraction of `nano` (< 10⁹) nanoseconds: nothing when it is zero; otherwise `.` and `k` digits,
`k` ∈ {3, 6, 9}, that denote `nano` exactly (nothing lost), no smaller `k'` ∈ {3, 6} being exact -/
def FracShape (nano : Nat) (s : List Nat) : Prop :=
  (nano = 0 ∧ s = []) ∨
  (nano ≠ 0 ∧ ∃ k ds, s = 46 :: ds ∧ IsDigits ds ∧ ds.length = k ∧ (k = 3 ∨ k = 6 ∨ k = 9) ∧
    digitsVal ds * 10 ^ (9 - k) = nano ∧
    ∀ k', (k' = 3 ∨ k' = 6 ∨ k' = 9) → k' < k → nano % 10 ^ (9 - k') ≠ 0)

/-- `HH:MM:SS[.fraction]` with the given field values -/
def TimeShape (h mi sec nano : Nat) (s : List Nat) : Prop :=
  ∃ hs ms ss fs, s = hs ++ 58 :: (ms ++ 58 :: (ss ++ fs)) ∧ TwoDigits h hs ∧ TwoDigits mi ms ∧
    TwoDigits sec ss ∧ FracShape nano fs

/-- the fields a time of day shows: a leap second (fraction field ≥ 10⁹; on second 59 for the values
the property covers) shows second 60 and its sub-second part -/
def TimeShapeOf (t : Time) (s : List Nat) : Prop :=
  TimeShape (t.secs / 3600).toNat (t.secs / 60 % 60).toNat
    (if t.frac ≥ 1000000000 then 60 else (t.secs % 60).toNat)
    (if t.frac ≥ 1000000000 then (t.frac - 1000000000).toNat else t.frac.toNat) s

/-- `+hh:mm` / `-hh:mm`: sign `-` exactly for a negative offset, hours and minutes of |off| -/
def OffsetShape (off : Int) (s : List Nat) : Prop :=
  ∃ c hs ms, s = c :: (hs ++ 58 :: ms) ∧ (c = 45 ↔ off < 0) ∧ (c = 43 ↔ 0 ≤ off) ∧
    TwoDigits (off.natAbs / 3600) hs ∧ TwoDigits (off.natAbs / 60 % 60) ms

end Chrono.Spec.Shape
