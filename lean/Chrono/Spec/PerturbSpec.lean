/-
  Specification side of C13, clauses "names in any letter case" and "surplus white space wherever the
  format has white space": what a case / white-space perturbation of a formatted text is.

  A formatted text is the concatenation of one segment per item of the format (`Rendered`: the segment is
  what the formatter writes for that item).  A perturbation (`Perturbed`) changes it segment by segment:
  * the segment of a white-space item (`Item::Space`: blanks in the format string, `%t`, `%n`) may be
    replaced by ANY run of white-space characters (the 25 `char::is_whitespace` characters, ASCII or not:
    more than the format has, other ones) — not by the empty run unless the format's own run is empty;
  * the segment of a name item (`%a %A %b %h %B`) or of `%p` / `%P` may change the case of its ASCII
    letters arbitrarily;
  * every other segment (numbers, literals, fractions, offsets) stays as it is.
  Nothing here refers to the parser.
-/
import Chrono.Spec.UnambiguousSpec
namespace Chrono.Spec
open Chrono.M Chrono.M.ParseFrom

/-- UTF-8 encodings of the 25 `White_Space` code points (`char::is_whitespace`): U+0009–000D, 0020, 0085,
00A0, 1680, 2000–200A, 2028, 2029, 202F, 205F, 3000 -/
def WS_CHARS : List (List Nat) :=
  [[9], [10], [11], [12], [13], [32], [194, 133], [194, 160], [225, 154, 128],
   [226, 128, 128], [226, 128, 129], [226, 128, 130], [226, 128, 131], [226, 128, 132], [226, 128, 133],
   [226, 128, 134], [226, 128, 135], [226, 128, 136], [226, 128, 137], [226, 128, 138],
   [226, 128, 168], [226, 128, 169], [226, 128, 175], [226, 129, 159], [227, 128, 128]]

/-- ASCII case folding of one byte -/
def foldCase (b : Nat) : Nat := if 65 ≤ b ∧ b ≤ 90 then b + 32 else b

/-- the same text up to the case of ASCII letters -/
def sameUpToCase (a b : List Nat) : Prop := a.map foldCase = b.map foldCase

/-- items whose rendering is a word that the reader accepts in any letter case -/
def caseFree : Item → Bool
  | .fixed .shortMonthName | .fixed .longMonthName | .fixed .shortWeekdayName | .fixed .longWeekdayName
  | .fixed .lowerAmPm | .fixed .upperAmPm => true
  | _ => false

/-- `seg'` is a perturbation of the segment `seg` the formatter wrote for the item -/
def PerturbSeg (it : Item) (seg seg' : List Nat) : Prop :=
  match it with
  | .space _ => ∃ cs : List (List Nat), (∀ c ∈ cs, c ∈ WS_CHARS) ∧ seg' = cs.flatten ∧ (seg ≠ [] → cs ≠ [])
  | it => if caseFree it = true then sameUpToCase seg' seg else seg' = seg

/-- segment by segment -/
def Perturbed : List Item → List (List Nat) → List (List Nat) → Prop
  | [], [], [] => True
  | it :: is, s :: ss, s' :: ss' => PerturbSeg it s s' ∧ Perturbed is ss ss'
  | _, _, _ => False

/-- the segments are what the formatter writes for the items, one by one, for the context a value shows -/
def Rendered (c : Ctx) : List Item → List (List Nat) → Prop
  | [], [] => True
  | it :: is, s :: ss => Format.format_item c.date c.time c.off it = Format.wok s ∧ Rendered c is ss
  | _, _ => False

/-- the identical text is a perturbation of itself when every white-space segment is a run of white-space
characters (which it is for the segments the formatter writes: `Rendered` of a format's items) -/
theorem PerturbSeg.refl_of_not_space (it : Item) (seg : List Nat) (h : ∀ sp, it ≠ .space sp) :
    PerturbSeg it seg seg := by
  cases it with
  | space sp => exact absurd rfl (h sp)
  | literal l => simp [PerturbSeg, caseFree]
  | numeric n p => simp [PerturbSeg, caseFree]
  | fixed f => unfold PerturbSeg; dsimp only; split <;> first | rfl | (unfold sameUpToCase; rfl)
  | error => simp [PerturbSeg, caseFree]

end Chrono.Spec
