/-
  Specification side for C06, third part: the canonical SHAPE of the Display text.  The reader of
  Spec/DeltaDisplaySpec.lean fixes the value a text denotes but accepts several texts per value
  (`PT007S`, `PT0S`, `-P0D`); these predicates say which one is written: `P0D` for zero; otherwise an
  optional `-`, `PT`, the integer part without leading zeros, an optional fraction of one to nine
  digits that does not end in `0`, `S` — and never `PT0S`.
-/
import Chrono.Spec.DeltaDisplaySpec
namespace Chrono.Spec

/-- canonical unsigned decimal numeral: non-empty, digits only, no leading zero except `0` itself -/
def canonInt (ds : List Nat) : Prop :=
  ds ≠ [] ∧ (∀ c ∈ ds, isDigit c = true) ∧ (ds.head? = some 48 → ds = [48])
instance (ds : List Nat) : Decidable (canonInt ds) := by unfold canonInt; exact inferInstance

/-- canonical fraction: absent, or a point followed by one to nine digits, the last one not `0` -/
def canonFrac (fr : List Nat) : Prop :=
  fr = [] ∨ ∃ ds, fr = 46 :: ds ∧ 1 ≤ ds.length ∧ ds.length ≤ 9 ∧ (∀ c ∈ ds, isDigit c = true) ∧
    ds.getLast? ≠ some 48

/-- the text of a non-zero duration: `[-]PT<int>[.<frac>]S`, canonical parts, not `PT0S` -/
def canonText (neg : Bool) (t : List Nat) : Prop :=
  ∃ ip fr, t = (if neg then [45] else []) ++ [80, 84] ++ ip ++ fr ++ [83] ∧ canonInt ip ∧ canonFrac fr ∧
    ¬ (ip = [48] ∧ fr = [])

end Chrono.Spec
