#!/usr/bin/env python3
"""Apply each reverse patch of a repaired defect (seeded/REGRESS-Fnn) and run the checks that should
re-detect it; record the outcome in its meta.json."""
import json, subprocess, re, sys, os
MAP = {"F01": ["C01", "C15"], "F02": ["C06"], "F03": ["C15", "C12"], "F04": ["C15"], "F05": ["C17", "C15"], "F06": ["C20", "C15"],
       "F07": ["C14", "C15"], "F08": ["C05"], "F09": ["C05"], "F10": ["C16"], "F11": ["C12"], "F12": ["C19"], "F14": ["C04", "C15"],
       "F15": ["C13"], "F16": ["C05"], "F17": ["C07"], "F26": ["C14"], "F27": ["C02"], "F31": ["C12"], "F32": ["C16", "C05", "C15", "C20"], "F33": ["C18"], "F35": ["C16"], "F36": ["C16"]}
only = sys.argv[1:]
for f, props in MAP.items():
    if only and f not in only: continue
    d = f"/verif/seeded/REGRESS-{f}"
    meta = json.load(open(d + "/meta.json"))
    assert subprocess.run("git -C /repo diff --quiet", shell=True).returncode == 0
    if subprocess.run(f"git -C /repo apply {d}/patch.diff", shell=True).returncode != 0:
        print(f, "patch does not apply"); continue
    runs = []
    try:
        for p in props:
            r = subprocess.run(["/verif/check", p, "--tier", "quick"], stdout=subprocess.PIPE, stderr=subprocess.STDOUT, text=True)
            lines = [l for l in r.stdout.split("\n") if re.search(r"VIOLATION|failing input|no longer checks|-> ok|-> VIOLATION", l)]
            inp = r.returncode == 1 and any(l.startswith("VIOLATION") and "no-failing-input-found" not in l for l in lines)
            lines = [l for l in lines if "no longer checks: Chrono.Pins." not in l] or lines
            runs.append({"check": f"./check {p} --tier quick", "exit": r.returncode, "caught": r.returncode == 1, "with_failing_input": inp, "output": [l[:400] for l in lines[:5]]})
            print(f, p, "CAUGHT" if r.returncode == 1 else "MISSED", (lines[0] if lines else "")[:200])
    finally:
        subprocess.run("git -C /repo checkout -- .", shell=True)
        subprocess.run("git -C /verif checkout -- evidence lean/Chrono/Extracted 2>/dev/null", shell=True)
    meta["checks_run"] = runs
    json.dump(meta, open(d + "/meta.json", "w"), indent=1)
