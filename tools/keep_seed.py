#!/usr/bin/env python3
"""keep_seed.py <seedout dir> <property> [more properties]  — after verify_seed.py confirmed the
seed: apply it to /repo, run the quick checks, undo, and store patch+demo+meta under /verif/seeded/."""
import json, os, shutil, subprocess, sys, re
d = os.path.abspath(sys.argv[1]); props = sys.argv[2:]
tag = ("R5-" if "seedout5" in d else "R4-" if "seedout4" in d else "R3-" if "seedout3" in d else "R2-" if "seedout2" in d else "") + os.path.basename(os.path.dirname(d)) + "-" + os.path.basename(d)
ver = json.load(open(os.path.join(d, "verified.json")))
if not ver.get("confirmed"):
    print(tag, "not confirmed; not kept"); sys.exit(1)
meta = json.load(open(os.path.join(d, "meta.json")))
assert subprocess.run("git -C /repo diff --quiet", shell=True).returncode == 0, "/repo not clean"
assert subprocess.run(f"git -C /repo apply {d}/patch.diff", shell=True).returncode == 0
runs = []
try:
    for p in props:
        r = subprocess.run(["/verif/check", p, "--tier", "quick"], stdout=subprocess.PIPE, stderr=subprocess.STDOUT, text=True)
        lines = [l for l in r.stdout.split("\n") if re.search(r"VIOLATION|failing input|no longer checks|-> ok|-> VIOLATION", l)]
        inp = r.returncode == 1 and any(l.startswith("VIOLATION") and "no-failing-input-found" not in l for l in lines)
        pins = sum(1 for l in lines if "no longer checks: Chrono.Pins." in l)
        lines = [l for l in lines if "no longer checks: Chrono.Pins." not in l][:6] or lines[:6]
        runs.append({"check": f"./check {p} --tier quick", "exit": r.returncode, "caught": r.returncode == 1,
                     "with_failing_input": inp, "source_pins_broken": pins, "output": lines})
        print(tag, p, ("CAUGHT" if inp else "CAUGHT(pin only)") if r.returncode == 1 else "MISSED", lines[:2])
finally:
    subprocess.run("git -C /repo checkout -- .", shell=True)
    # the evidence written while the seed was applied describes a mutated tree: never keep it
    subprocess.run("git -C /verif checkout -- evidence lean/Chrono/Extracted 2>/dev/null", shell=True)
out = os.path.join("/verif/seeded", tag)
os.makedirs(out, exist_ok=True)
shutil.copy(os.path.join(d, "patch.diff"), out); shutil.copy(os.path.join(d, "seed_demo.rs"), out)
meta.update({"breaks_property": meta.get("property"), "confirmed_by": {
    "how": "tools/verify_seed.py in a scratch worktree of /repo HEAD: demo passes without the patch, fails with it, full suite passes with it",
    **{k: ver[k] for k in ["worktree_head", "demo_without_patch_rc", "demo_with_patch_rc", "suite_ok", "suite_summary"] if k in ver}},
    "checks_run": runs})
json.dump(meta, open(os.path.join(out, "meta.json"), "w"), indent=1)
