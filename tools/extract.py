#!/usr/bin/env python3
"""Translator for data: regenerate lean/Chrono/Extracted/*.lean from /repo's current sources.

Each item is located by a regex in the Rust source and evaluated with a small constant-expression
evaluator.  Items that cannot be located keep their snapshot value and are reported as `stale`
(tie 2, the correspondence, then carries them).  Output files are rewritten only when their content
changes, so lake rebuilds only what depends on changed data.

Usage: extract.py [--repo /repo] [--out /verif/lean/Chrono/Extracted] [--report path.json]
"""
import json, os, re, sys, argparse

REPO = os.environ.get("CHRONO_REPO", "/repo")  # CHRONO_REPO: development aid (isolated seeded runs); the registered checks use /repo
OUT = os.path.join(os.path.dirname(os.path.dirname(os.path.abspath(__file__))), "lean", "Chrono", "Extracted")

def read(rel):
    with open(os.path.join(REPO, rel), encoding="utf-8") as f:
        return f.read()

def strip_comments(s):
    s = re.sub(r"//[^\n]*", "", s)
    return s

I32_MAX, I32_MIN = 2**31 - 1, -2**31
I64_MAX, I64_MIN = 2**63 - 1, -2**63

def ev(expr, env):
    """Evaluate a Rust constant expression made of integer literals, names, + - * / << >> | & ( ) and `as T`."""
    e = expr.strip()
    e = re.sub(r"\bas\s+(usize|u8|u16|u32|u64|i8|i16|i32|i64|i128|u128)\b", "", e)
    e = e.replace("i32::MAX", str(I32_MAX)).replace("i32::MIN", f"({I32_MIN})")
    e = e.replace("i64::MAX", str(I64_MAX)).replace("i64::MIN", f"({I64_MIN})")
    e = e.replace("u32::MAX", str(2**32 - 1)).replace("u64::MAX", str(2**64 - 1))
    e = re.sub(r"\b0b([01_]+)\b", lambda m: str(int(m.group(1).replace("_", ""), 2)), e)
    e = re.sub(r"\b0x([0-9a-fA-F_]+)\b", lambda m: str(int(m.group(1).replace("_", ""), 16)), e)
    e = re.sub(r"\b(\d[\d_]*)(?:u8|u16|u32|u64|i8|i16|i32|i64|usize)?\b", lambda m: m.group(1).replace("_", ""), e)
    def name(m):
        n = m.group(0)
        if n in env:
            return f"({env[n]})"
        raise KeyError(n)
    e = re.sub(r"\b[A-Za-z_][A-Za-z0-9_]*\b", name, e)
    # Rust `/` and `%` truncate toward zero: evaluate through a wrapper class with that semantics.
    def tdiv(a, b):
        q = abs(a) // abs(b)
        return q if (a >= 0) == (b >= 0) else -q
    class Z:
        def __init__(s, v): s.v = v
        def __add__(s, o): return Z(s.v + o.v)
        def __sub__(s, o): return Z(s.v - o.v)
        def __mul__(s, o): return Z(s.v * o.v)
        def __floordiv__(s, o): return Z(tdiv(s.v, o.v))
        def __mod__(s, o): return Z(s.v - o.v * tdiv(s.v, o.v))
        def __lshift__(s, o): return Z(s.v << o.v)
        def __rshift__(s, o): return Z(s.v >> o.v)
        def __or__(s, o): return Z(s.v | o.v)
        def __and__(s, o): return Z(s.v & o.v)
        def __neg__(s): return Z(-s.v)
    e = re.sub(r"/", "//", e)
    e2 = re.sub(r"\b(\d+)\b", r"Z(\1)", e)
    return eval(e2, {"Z": Z}).v

def find_const(src, name):
    m = re.search(r"\bconst\s+" + re.escape(name) + r"\s*:\s*[^=;]+=\s*([^;]+);", src)
    if not m:
        raise LookupError(name)
    return m.group(1)

def find_array(src, name):
    m = re.search(r"\b(?:const|static)\s+" + re.escape(name) + r"\s*:\s*[^=]+=\s*&?\s*\[(.*?)\]\s*;", src, re.S)
    if not m:
        raise LookupError(name)
    return [x.strip() for x in m.group(1).replace("\n", " ").split(",") if x.strip()]

def lean_nat_list(name, xs, per=24):
    lines = []
    for i in range(0, len(xs), per):
        lines.append("  " + ", ".join(str(x) for x in xs[i:i + per]))
    return f"def {name} : List Nat := [\n" + ",\n".join(lines) + "]\n"

def bytes_lit(bs):
    return "[" + ", ".join(str(b) for b in bs) + "]"

def rust_bytes(tok):
    """b"abc" or "abc" -> list of byte values"""
    m = re.match(r'b?"((?:[^"\\]|\\.)*)"', tok.strip())
    if not m:
        raise ValueError(tok)
    return list(m.group(1).encode("utf-8"))

class Report:
    def __init__(self):
        self.items = {}
    def ok(self, k, where): self.items[k] = {"status": "extracted", "where": where}
    def stale(self, k, why): self.items[k] = {"status": "stale", "why": str(why)}

def section(rep, key, where, fn, fallback):
    try:
        v = fn()
        rep.ok(key, where)
        return v
    except Exception as e:  # code reshaped: keep the snapshot
        rep.stale(key, repr(e))
        return fallback

def load_snapshot(path):
    try:
        with open(path) as f:
            return json.load(f)
    except Exception:
        return {}

def main():
    global REPO, OUT
    ap = argparse.ArgumentParser()
    ap.add_argument("--repo", default=REPO)
    ap.add_argument("--out", default=OUT)
    ap.add_argument("--report", default=None)
    a = ap.parse_args()
    REPO, OUT = a.repo, a.out
    os.makedirs(OUT, exist_ok=True)
    snap_path = os.path.join(OUT, "snapshot.json")
    snap = load_snapshot(snap_path)
    rep = Report()
    data = {}

    # ---------------------------------------------------------------- calendar tables / constants
    internals = strip_comments(read("src/naive/internals.rs"))
    datemod = strip_comments(read("src/naive/date/mod.rs"))

    def flags_env():
        env = {}
        for n in ["YEAR_STARTS_AFTER_MONDAY", "YEAR_STARTS_AFTER_THUESDAY", "YEAR_STARTS_AFTER_WEDNESDAY",
                  "YEAR_STARTS_AFTER_THURSDAY", "YEAR_STARTS_AFTER_FRIDAY", "YEAR_STARTS_AFTER_SATURDAY",
                  "YEAR_STARTS_AFTER_SUNDAY", "COMMON_YEAR", "LEAP_YEAR"]:
            env[n] = ev(find_const(internals, n), env)
        for n in ["A", "AG", "B", "BA", "C", "CB", "D", "DC", "E", "ED", "F", "FE", "G", "GF"]:
            m = re.search(r"\bconst\s+" + n + r"\s*:\s*YearFlags\s*=\s*YearFlags\(([^)]*)\)\s*;", internals)
            env[n] = ev(m.group(1), env)
        return env
    fenv = section(rep, "year_flag_consts", "src/naive/internals.rs", flags_env, snap.get("fenv"))
    data["fenv"] = fenv

    def t_y2f():
        xs = [ev(x, fenv) for x in find_array(internals, "YEAR_TO_FLAGS")]
        return xs
    data["YEAR_TO_FLAGS"] = section(rep, "YEAR_TO_FLAGS", "src/naive/internals.rs", t_y2f, snap.get("YEAR_TO_FLAGS"))

    def t_mdl():
        env = {"XX": ev(find_const(internals, "XX"), {})}
        return [ev(x, env) for x in find_array(internals, "MDL_TO_OL")]
    data["MDL_TO_OL"] = section(rep, "MDL_TO_OL", "src/naive/internals.rs", t_mdl, snap.get("MDL_TO_OL"))

    def t_ol():
        return [ev(x, {}) for x in find_array(internals, "OL_TO_MDL")]
    data["OL_TO_MDL"] = section(rep, "OL_TO_MDL", "src/naive/internals.rs", t_ol, snap.get("OL_TO_MDL"))

    def t_yd():
        return [ev(x, {}) for x in find_array(datemod, "YEAR_DELTAS")]
    data["YEAR_DELTAS"] = section(rep, "YEAR_DELTAS", "src/naive/date/mod.rs", t_yd, snap.get("YEAR_DELTAS"))

    consts = dict(snap.get("consts", {}))
    def c(key, rel, name, env=None, src=None):
        def f():
            s = src if src is not None else strip_comments(read(rel))
            return ev(find_const(s, name), env or consts)
        v = section(rep, key, rel, f, consts.get(key))
        consts[key] = v
    c("MAX_YEAR", "src/naive/date/mod.rs", "MAX_YEAR", src=datemod)
    c("MIN_YEAR", "src/naive/date/mod.rs", "MIN_YEAR", src=datemod)
    c("ORDINAL_MASK", "src/naive/date/mod.rs", "ORDINAL_MASK", src=datemod)
    c("LEAP_YEAR_MASK", "src/naive/date/mod.rs", "LEAP_YEAR_MASK", src=datemod)
    c("OL_MASK", "src/naive/date/mod.rs", "OL_MASK", src=datemod)
    c("DATE_MAX_OL", "src/naive/date/mod.rs", "MAX_OL", src=datemod)
    c("WEEKDAY_FLAGS_MASK", "src/naive/date/mod.rs", "WEEKDAY_FLAGS_MASK", src=datemod)
    c("YEAR_FLAGS_MASK", "src/naive/date/mod.rs", "YEAR_FLAGS_MASK", src=datemod)
    c("MAX_OL", "src/naive/internals.rs", "MAX_OL", src=internals)
    c("MAX_MDL", "src/naive/internals.rs", "MAX_MDL", src=internals)
    def iso_consts():
        m1 = re.search(r"fn nisoweeks\(&self\).*?52 \+ \(\((0b[01_]+) >> flags as usize\) & 1\)", internals, re.S)
        m2 = re.search(r"fn isoweek_delta\(&self\).*?let mut delta = \(flags & (0b[01]+)\) as u32;\s*if delta < (\d+) \{\s*delta \+= (\d+);", internals, re.S)
        m3 = re.search(r"fn ndays\(&self\).*?(\d+) - \(flags >> (\d+)\) as u32", internals, re.S)
        return [ev(m1.group(1), {}), ev(m2.group(1), {}), int(m2.group(2)), int(m2.group(3)), int(m3.group(1)), int(m3.group(2))]
    v = section(rep, "YearFlags::{nisoweeks, isoweek_delta, ndays} literals", "src/naive/internals.rs", iso_consts,
                [consts.get(k) for k in ["NISOWEEKS_MASK", "ISOWEEK_DELTA_MASK", "ISOWEEK_DELTA_MIN", "ISOWEEK_DELTA_ADD", "NDAYS_BASE", "NDAYS_SHIFT"]])
    (consts["NISOWEEKS_MASK"], consts["ISOWEEK_DELTA_MASK"], consts["ISOWEEK_DELTA_MIN"], consts["ISOWEEK_DELTA_ADD"],
     consts["NDAYS_BASE"], consts["NDAYS_SHIFT"]) = v
    c("UNIX_EPOCH_DAY", "src/datetime/mod.rs", "UNIX_EPOCH_DAY")
    td = strip_comments(read("src/time_delta.rs"))
    for n in ["NANOS_PER_MICRO", "NANOS_PER_MILLI", "NANOS_PER_SEC", "MICROS_PER_SEC", "MILLIS_PER_SEC",
              "SECS_PER_MINUTE", "SECS_PER_HOUR", "SECS_PER_DAY", "SECS_PER_WEEK"]:
        c(n, "src/time_delta.rs", n, src=td)
    c("TD_MIN_SECS", "src/time_delta.rs", "MIN_SECS", src=td)
    c("TD_MAX_SECS", "src/time_delta.rs", "MAX_SECS", src=td)
    def td_minmax():
        mn = re.search(r"pub\(crate\) const MIN: TimeDelta = TimeDelta\s*\{\s*secs:\s*([^,]+),\s*nanos:\s*([^}]+?),?\s*\}", td)
        mx = re.search(r"pub\(crate\) const MAX: TimeDelta = TimeDelta\s*\{\s*secs:\s*([^,]+),\s*nanos:\s*([^}]+?),?\s*\}", td)
        return [ev(mn.group(1), consts), ev(mn.group(2), consts), ev(mx.group(1), consts), ev(mx.group(2), consts)]
    v = section(rep, "TimeDelta::MIN/MAX", "src/time_delta.rs", td_minmax,
                [consts.get(k) for k in ["TD_MIN_S", "TD_MIN_N", "TD_MAX_S", "TD_MAX_N"]])
    consts["TD_MIN_S"], consts["TD_MIN_N"], consts["TD_MAX_S"], consts["TD_MAX_N"] = v
    c("MAX_RFC3339_OFFSET", "src/format/parse.rs", "MAX_RFC3339_OFFSET")
    data["consts"] = consts

    # ---------------------------------------------------------------- names
    scan = read("src/format/scan.rs")
    weekday_rs = read("src/weekday.rs")
    month_rs = read("src/month.rs")
    WD = ["Mon", "Tue", "Wed", "Thu", "Fri", "Sat", "Sun"]
    MO = ["January", "February", "March", "April", "May", "June", "July", "August", "September", "October",
          "November", "December"]
    def short_months():
        body = re.search(r"fn short_month0\(.*?\n\}", scan, re.S).group(0)
        arms = re.findall(r"\(b'(.)', b'(.)', b'(.)'\)\s*=>\s*(\d+)", body)
        out = [None] * 12
        for a, b, cc, n in arms:
            out[int(n)] = [ord(a), ord(b), ord(cc)]
        assert all(x is not None for x in out) and len(arms) == 12
        return out
    data["SHORT_MONTHS"] = section(rep, "short_month0 arms", "src/format/scan.rs", short_months, snap.get("SHORT_MONTHS"))
    def short_weekdays():
        body = re.search(r"fn short_weekday\(.*?\n\}", scan, re.S).group(0)
        arms = re.findall(r"\(b'(.)', b'(.)', b'(.)'\)\s*=>\s*Weekday::(\w+)", body)
        out = [None] * 7
        for a, b, cc, n in arms:
            out[WD.index(n)] = [ord(a), ord(b), ord(cc)]
        assert all(x is not None for x in out) and len(arms) == 7
        return out
    data["SHORT_WEEKDAYS"] = section(rep, "short_weekday arms", "src/format/scan.rs", short_weekdays, snap.get("SHORT_WEEKDAYS"))
    def suffixes(name, n):
        def f():
            m = re.search(name + r"\s*:\s*\[&\[u8\];\s*\d+\]\s*=\s*\[(.*?)\];", scan, re.S)
            toks = re.findall(r'b"[^"]*"', m.group(1))
            assert len(toks) == n
            return [rust_bytes(t) for t in toks]
        return f
    data["LONG_MONTH_SUFFIXES"] = section(rep, "LONG_MONTH_SUFFIXES", "src/format/scan.rs",
                                          suffixes("LONG_MONTH_SUFFIXES", 12), snap.get("LONG_MONTH_SUFFIXES"))
    data["LONG_WEEKDAY_SUFFIXES"] = section(rep, "LONG_WEEKDAY_SUFFIXES", "src/format/scan.rs",
                                            suffixes("LONG_WEEKDAY_SUFFIXES", 7), snap.get("LONG_WEEKDAY_SUFFIXES"))
    def weekday_display():
        body = re.search(r"impl fmt::Display for Weekday \{.*?\n\}", weekday_rs, re.S).group(0)
        arms = re.findall(r'Weekday::(\w+)\s*=>\s*("[^"]*")', body)
        out = [None] * 7
        for n, s in arms:
            out[WD.index(n)] = rust_bytes(s)
        assert all(x is not None for x in out)
        return out
    data["WEEKDAY_DISPLAY"] = section(rep, "Weekday Display names", "src/weekday.rs", weekday_display, snap.get("WEEKDAY_DISPLAY"))
    def month_names():
        body = re.search(r"pub const fn name\(&self\).*?\n    \}", month_rs, re.S).group(0)
        arms = re.findall(r'Month::(\w+)\s*=>\s*("[^"]*")', body)
        out = [None] * 12
        for n, s in arms:
            out[MO.index(n)] = rust_bytes(s)
        assert all(x is not None for x in out)
        return out
    data["MONTH_NAMES"] = section(rep, "Month::name", "src/month.rs", month_names, snap.get("MONTH_NAMES"))
    def locale_list(fn):
        def f():
            loc = read("src/format/locales.rs")
            # the non-`unstable-locales` versions return fixed arrays
            ms = re.findall(r"pub\(crate\) const fn " + fn + r"\(_locale: Locale\) -> &'static \[&'static str\] \{\s*&\[(.*?)\]\s*\}", loc, re.S)
            toks = re.findall(r'"[^"]*"', ms[0])
            return [rust_bytes(t) for t in toks]
        return f
    for key, fn in [("LOC_SHORT_MONTHS", "short_months"), ("LOC_LONG_MONTHS", "long_months"),
                    ("LOC_SHORT_WEEKDAYS", "short_weekdays"), ("LOC_LONG_WEEKDAYS", "long_weekdays"),
                    ("LOC_AM_PM", "am_pm")]:
        data[key] = section(rep, "locales::" + fn, "src/format/locales.rs", locale_list(fn), snap.get(key))

    # ---------------------------------------------------------------- write
    files = {}
    hdr = "-- GENERATED by tools/extract.py from /repo sources; do not edit.\n"
    t = hdr + "namespace Chrono.Extracted\n\n"
    for n in ["YEAR_TO_FLAGS", "MDL_TO_OL", "OL_TO_MDL", "YEAR_DELTAS"]:
        t += lean_nat_list(n, data[n]) + "\n"
    t += "end Chrono.Extracted\n"
    files["Tables.lean"] = t

    t = hdr + "namespace Chrono.Extracted\n\n"
    for k in sorted(data["fenv"]):
        t += f"def FLAG_{k} : Nat := {data['fenv'][k]}\n"
    for k in sorted(consts):
        t += f"def {k} : Int := {consts[k]}\n"
    t += "\nend Chrono.Extracted\n"
    files["Consts.lean"] = t

    t = hdr + "namespace Chrono.Extracted\n\n"
    for k in ["SHORT_MONTHS", "SHORT_WEEKDAYS", "LONG_MONTH_SUFFIXES", "LONG_WEEKDAY_SUFFIXES", "WEEKDAY_DISPLAY",
              "MONTH_NAMES", "LOC_SHORT_MONTHS", "LOC_LONG_MONTHS", "LOC_SHORT_WEEKDAYS", "LOC_LONG_WEEKDAYS",
              "LOC_AM_PM"]:
        t += f"def {k} : List (List Nat) := [\n  " + ",\n  ".join(bytes_lit(b) for b in data[k]) + "]\n\n"
    t += "end Chrono.Extracted\n"
    files["Names.lean"] = t

    # ---------------------------------------------------------------- plugins (tools/extractors/*.py)
    # each plugin defines run(api) and uses api.read / api.ev / api.find_const / api.find_array /
    # api.section(key, where, fn, fallback) / api.snap(key) / api.keep(key, value) / api.emit(file, text)
    class Api:
        pass
    api = Api()
    api.read, api.ev, api.find_const, api.find_array, api.strip_comments = read, ev, find_const, find_array, strip_comments
    api.lean_nat_list, api.bytes_lit, api.rust_bytes, api.consts, api.hdr = lean_nat_list, bytes_lit, rust_bytes, consts, hdr
    api.section = lambda key, where, fn, fallback: section(rep, key, where, fn, fallback)
    api.snap = lambda key: snap.get(key)
    def _keep(key, value):
        data[key] = value
    api.keep = _keep
    def _emit(fn, text):
        files[fn] = text
    api.emit = _emit
    plug_dir = os.path.join(os.path.dirname(os.path.abspath(__file__)), "extractors")
    if os.path.isdir(plug_dir):
        import importlib.util
        for fn in sorted(os.listdir(plug_dir)):
            if fn.endswith(".py"):
                spec = importlib.util.spec_from_file_location("extractor_" + fn[:-3], os.path.join(plug_dir, fn))
                mod = importlib.util.module_from_spec(spec)
                try:
                    spec.loader.exec_module(mod)
                    mod.run(api)
                except Exception as e:  # a broken plugin must not take the others down
                    rep.stale("plugin:" + fn, repr(e))

    changed = []
    for fn, content in files.items():
        p = os.path.join(OUT, fn)
        old = None
        if os.path.exists(p):
            with open(p) as f:
                old = f.read()
        if old != content:
            with open(p, "w") as f:
                f.write(content)
            changed.append(fn)
    snap_new = json.dumps(data, sort_keys=True, indent=0)
    old = None
    if os.path.exists(snap_path):
        with open(snap_path) as f:
            old = f.read()
    if old != snap_new:
        with open(snap_path, "w") as f:
            f.write(snap_new)
    report = {"changed_files": changed, "items": rep.items,
              "stale": sorted(k for k, v in rep.items.items() if v["status"] == "stale")}
    if a.report:
        with open(a.report, "w") as f:
            json.dump(report, f, indent=1)
    print(json.dumps({"changed_files": changed, "stale": report["stale"], "n_items": len(rep.items)}))

if __name__ == "__main__":
    main()
