#!/usr/bin/env python3
"""rerun_seeds.py <seed-id>:<prop>[,<prop>] ...  — apply a kept seeded change to /repo again, run the named quick
checks, undo, and record the outcome in its meta.json (the earlier outcome moves to `checks_run_before_strengthening`
the first time a seed is re-run)."""
import json, os, re, subprocess, sys
for arg in sys.argv[1:]:
    sid, props = arg.split(":"); props = props.split(",")
    d = f"/verif/seeded/{sid}"; meta = json.load(open(d + "/meta.json"))
    assert subprocess.run("git -C /repo diff --quiet", shell=True).returncode == 0, "/repo not clean"
    assert subprocess.run(f"git -C /repo apply {d}/patch.diff", shell=True).returncode == 0
    runs = []
    try:
        for p in props:
            r = subprocess.run(["/verif/check", p, "--tier", "quick"], stdout=subprocess.PIPE, stderr=subprocess.STDOUT, text=True)
            lines = [l for l in r.stdout.split("\n") if re.search(r"VIOLATION|failing input|no longer checks|-> ok|-> VIOLATION", l)]
            inp = r.returncode == 1 and any(l.startswith("VIOLATION") and "no-failing-input-found" not in l for l in lines)
            pins = sum(1 for l in lines if "no longer checks: Chrono.Pins." in l)
            lines = [l[:400] for l in lines if "no longer checks: Chrono.Pins." not in l][:6] or lines[:6]
            runs.append({"check": f"./check {p} --tier quick", "exit": r.returncode, "caught": r.returncode == 1,
                         "with_failing_input": inp, "source_pins_broken": pins, "output": lines})
            print(sid, p, ("CAUGHT" if inp else "CAUGHT(no input)") if r.returncode == 1 else "MISSED")
    finally:
        subprocess.run("git -C /repo checkout -- .", shell=True)
        subprocess.run("git -C /verif checkout -- evidence lean/Chrono/Extracted 2>/dev/null", shell=True)
    if "checks_run_before_strengthening" not in meta:
        meta["checks_run_before_strengthening"] = meta.get("checks_run", [])
    keep = [r for r in meta.get("checks_run", []) if r["check"] not in {x["check"] for x in runs}]
    meta["checks_run"] = runs + keep
    json.dump(meta, open(d + "/meta.json", "w"), indent=1)
