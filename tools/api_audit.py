#!/usr/bin/env python3
"""List the public functions of chrono (unix build, default + serde features) that no harness module
mentions (called, or passed as a function value).  A maintenance aid, not a check: thin entry points
nobody calls are where a change can hide from the direct oracles (DESIGN.md 11.4, round 3)."""
import re, glob, os
pub = {}
for f in glob.glob('/repo/src/**/*.rs', recursive=True):
    if any(x in f for x in ('windows', 'wasm', 'win_bindings', 'rkyv', 'locales', 'arbitrary')) or f.endswith('tests.rs') or f.endswith('/date.rs'):
        continue
    s = re.sub(r'#\[cfg\(test\)\]\s*mod \w+ \{.*', '', open(f).read(), flags=re.S)
    rel = os.path.relpath(f, '/repo/src')
    for m in re.finditer(r'^\s*pub (?:const )?fn (\w+)', s, re.M):
        pub.setdefault(m.group(1), set()).add(rel)
    if os.path.basename(f) in ('traits.rs', 'round.rs') or f.endswith('offset/mod.rs'):
        for m in re.finditer(r'^\s*fn (\w+)', s, re.M):
            pub.setdefault(m.group(1), set()).add(rel)
V = os.path.dirname(os.path.dirname(os.path.abspath(__file__)))
h = ''.join(open(f).read() for f in glob.glob(os.path.join(V, 'harness', 'src', '**', '*.rs'), recursive=True))
missing = [(n, sorted(fs)) for n, fs in sorted(pub.items()) if not re.search(r'[.:]' + re.escape(n) + r'\b', h)]
print(len(pub), 'public fns;', len(missing), 'not mentioned by the harness')
for n, fs in missing:
    print(' ', n, fs)
