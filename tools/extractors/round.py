"""Extractor plugin for C17: data of src/round.rs -> lean/Chrono/Extracted/Round.lean.

* `span_for_digits`: the arms of its `match digits { 0 => …, 1 => …, …, _ => … }` (the keys must be
  0,1,2,… in order; the table is the list of right-hand sides, the default arm a separate constant);
* the comparison operators and literals the rounding functions use, as far as they are plain data:
  the `span <= 0` guard (operator + literal), the tie rule `delta_up <= delta_down` (operator), and the
  scale used by `timestamp_nanos_opt` (1_000_000_000, from src/datetime/mod.rs).

If an item cannot be located (code reshaped) the committed file is kept and the item is reported
stale; the correspondence then carries it."""
import re


def fn_body(src, name, must=""):
    """text of the first `fn name…{ … }` with a body (declarations ending in `;` are skipped) whose
    body contains `must` (the trait impls that only forward are skipped that way)"""
    for m in re.finditer(r"\bfn\s+" + re.escape(name) + r"\b[^;{]*\{", src):
        i = m.end() - 1
        depth, j = 0, i
        while True:
            if src[j] == "{":
                depth += 1
            elif src[j] == "}":
                depth -= 1
                if depth == 0:
                    break
            j += 1
        if must in src[i:j + 1]:
            return src[i:j + 1]
    raise LookupError(name)


def run(api):
    src = api.strip_comments(api.read("src/round.rs"))
    dtm = api.strip_comments(api.read("src/datetime/mod.rs"))

    def spans():
        body = fn_body(src, "span_for_digits")
        m = re.search(r"match\s+digits\s*\{(.*)\}", body, re.S)
        arms = re.findall(r"(\d[\d_]*|_)\s*=>\s*([0-9_]+)\s*,", m.group(1))
        keys = [k for k, _ in arms]
        assert keys[-1] == "_" and "_" not in keys[:-1], keys
        assert [int(k.replace("_", "")) for k in keys[:-1]] == list(range(len(keys) - 1)), keys
        vals = [api.ev(v, {}) for _, v in arms]
        return {"table": vals[:-1], "default": vals[-1]}

    def guards():
        out = []
        for fn in ["duration_round", "duration_trunc", "duration_round_up"]:
            body = fn_body(src, fn, "delta_down")
            m = re.search(r"if\s+span\s*(<=|<)\s*(-?\d+)\s*\{\s*return\s+Err\(RoundingError::DurationExceedsLimit\)", body)
            op, lit = m.group(1), int(m.group(2))
            # encoded as the greatest refused span: `span <= 0` -> 0, `span < 0` -> -1
            out.append(lit if op == "<=" else lit - 1)
        return out

    def tie():
        out = []
        for fn in ["duration_round", "round_subsecs"]:
            body = fn_body(src, fn, "delta_down")
            m = re.search(r"if\s+delta_up\s*(<=|<)\s*delta_down\s*\{", body)
            out.append(1 if m.group(1) == "<=" else 0)
        return out

    def scale():
        body = fn_body(dtm, "timestamp_nanos_opt")
        lits = set(int(x.replace("_", "")) for x in re.findall(r"\b(1_?0[0_]+)\b", body))
        assert len(lits) == 1, lits
        return lits.pop()

    sp = api.section("C17.span_for_digits", "src/round.rs", spans, None)
    gd = api.section("C17.span guard", "src/round.rs", guards, None)
    ti = api.section("C17.tie rule", "src/round.rs", tie, None)
    sc = api.section("C17.timestamp scale", "src/datetime/mod.rs", scale, None)
    keys = ["C17.span_for_digits", "C17.span guard", "C17.tie rule", "C17.timestamp scale"]
    if sp is None or gd is None or ti is None or sc is None:
        for k in keys:  # keep the committed snapshot (file and values); stale items are in the report
            if api.snap(k) is not None:
                api.keep(k, api.snap(k))
        return
    api.keep("C17.span_for_digits", sp)
    api.keep("C17.span guard", gd)
    api.keep("C17.tie rule", ti)
    api.keep("C17.timestamp scale", sc)
    b = lambda x: "true" if x else "false"
    t = api.hdr + "namespace Chrono.Extracted.Round\n\n"
    t += "/-- `span_for_digits`: right-hand sides of the arms `0 => …, 1 => …, …` in order -/\n"
    t += "def SPAN_TABLE : List Int := [" + ", ".join(str(v) for v in sp["table"]) + "]\n"
    t += "/-- the `_ =>` arm -/\n"
    t += f"def SPAN_DEFAULT : Int := {sp['default']}\n"
    t += "/-- greatest span refused by the guard at the head of `duration_round` / `duration_trunc` /\n`duration_round_up` (`span <= 0` gives 0, `span < 0` would give -1) -/\n"
    t += f"def SPAN_REFUSED_MAX_ROUND : Int := {gd[0]}\n"
    t += f"def SPAN_REFUSED_MAX_TRUNC : Int := {gd[1]}\n"
    t += f"def SPAN_REFUSED_MAX_UP : Int := {gd[2]}\n"
    t += "/-- `if delta_up <= delta_down` (ties go up) in `duration_round` -/\n"
    t += f"def TIE_UP : Bool := {b(ti[0])}\n"
    t += "/-- the same comparison in `round_subsecs` -/\n"
    t += f"def TIE_UP_SUBSEC : Bool := {b(ti[1])}\n"
    t += "/-- the scale literal of `timestamp_nanos_opt` -/\n"
    t += f"def STAMP_SCALE : Int := {sc}\n"
    t += "\nend Chrono.Extracted.Round\n"
    api.emit("Round.lean", t)
