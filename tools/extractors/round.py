"""Extractor plugin for C17: data of src/round.rs -> lean/Chrono/Extracted/Round.lean.

* `span_for_digits`: the arms of its `match digits { 0 => …, 1 => …, …, _ => … }` (the keys must be
  0,1,2,… in order; the table is the list of right-hand sides, the default arm a separate constant);
* the comparison operators and literals the rounding functions use, as far as they are plain data:
  the `span <= 0` guard (operator + literal), the tie rule `delta_up <= delta_down` (operator), and the
  scale used by `timestamp_nanos_opt` (1_000_000_000, from src/datetime/mod.rs).

If an item cannot be located (code reshaped) the committed file is kept and the item is reported
stale; the correspondence then carries it."""
import re


def fn_body(src, name, must=""):
    """text of the first `fn name…{ … }` with a body (declarations ending in `;` are skipped) whose
    body contains `must` (the trait impls that only forward are skipped that way)"""
    for m in re.finditer(r"\bfn\s+" + re.escape(name) + r"\b[^;{]*\{", src):
        i = m.end() - 1
        depth, j = 0, i
        while True:
            if src[j] == "{":
                depth += 1
            elif src[j] == "}":
                depth -= 1
                if depth == 0:
                    break
            j += 1
        if must in src[i:j + 1]:
            return src[i:j + 1]
    raise LookupError(name)


def run(api):
    src = api.strip_comments(api.read("src/round.rs"))
    dtm = api.strip_comments(api.read("src/datetime/mod.rs"))

    def spans():
        body = fn_body(src, "span_for_digits")
        m = re.search(r"match\s+digits\s*\{(.*)\}", body, re.S)
        arms = re.findall(r"(\d[\d_]*|_)\s*=>\s*([0-9_]+)\s*,", m.group(1))
        keys = [k for k, _ in arms]
        assert keys[-1] == "_" and "_" not in keys[:-1], keys
        assert [int(k.replace("_", "")) for k in keys[:-1]] == list(range(len(keys) - 1)), keys
        vals = [api.ev(v, {}) for _, v in arms]
        return {"table": vals[:-1], "default": vals[-1]}

    def guards():
        out = {}
        for fn in ["duration_round", "duration_trunc", "duration_round_up"]:
            body = fn_body(src, fn, "delta_down")
            m = re.search(r"if\s+span\s*(<=|<|==)\s*(-?\d+)\s*\{\s*return\s+Err\(RoundingError::DurationExceedsLimit\)", body)
            out[fn] = [m.group(1), int(m.group(2))]
        assert len({tuple(v) for v in out.values()}) == 1, out   # the three functions share the guard
        op, lit = out["duration_round"]
        # encoded as the greatest refused span: `span <= 0` -> 0, `span < 0` -> -1
        assert op in ("<=", "<")
        return lit if op == "<=" else lit - 1

    def tie():
        body = fn_body(src, "duration_round", "delta_down")
        m = re.search(r"if\s+delta_up\s*(<=|<)\s*delta_down\s*\{", body)
        body2 = fn_body(src, "round_subsecs", "delta_down")
        m2 = re.search(r"if\s+delta_up\s*(<=|<)\s*delta_down\s*\{", body2)
        assert m.group(1) == m2.group(1)
        return 1 if m.group(1) == "<=" else 0

    def scale():
        body = fn_body(dtm, "timestamp_nanos_opt")
        lits = set(int(x.replace("_", "")) for x in re.findall(r"\b(1_?0[0_]+)\b", body))
        assert len(lits) == 1, lits
        return lits.pop()

    sp = api.section("C17.span_for_digits", "src/round.rs", spans, None)
    gd = api.section("C17.span guard", "src/round.rs", guards, None)
    ti = api.section("C17.tie rule", "src/round.rs", tie, None)
    sc = api.section("C17.timestamp scale", "src/datetime/mod.rs", scale, None)
    if sp is None or gd is None or ti is None or sc is None:
        return  # keep the committed snapshot file
    api.keep("C17.span_for_digits", sp)
    api.keep("C17.span guard", gd)
    api.keep("C17.tie rule", ti)
    api.keep("C17.timestamp scale", sc)
    t = api.hdr + "namespace Chrono.Extracted.Round\n\n"
    t += "/-- `span_for_digits`: right-hand sides of the arms `0 => …, 1 => …, …` in order -/\n"
    t += "def SPAN_TABLE : List Int := [" + ", ".join(str(v) for v in sp["table"]) + "]\n"
    t += "/-- the `_ =>` arm -/\n"
    t += f"def SPAN_DEFAULT : Int := {sp['default']}\n"
    t += "/-- greatest span refused by the guard at the head of `duration_round/trunc/round_up`\n(`span <= 0` gives 0) -/\n"
    t += f"def SPAN_REFUSED_MAX : Int := {gd}\n"
    t += "/-- `if delta_up <= delta_down` (ties go up) in `duration_round` and `round_subsecs` -/\n"
    t += f"def TIE_UP : Bool := {'true' if ti else 'false'}\n"
    t += "/-- the scale literal of `timestamp_nanos_opt` -/\n"
    t += f"def STAMP_SCALE : Int := {sc}\n"
    t += "\nend Chrono.Extracted.Round\n"
    api.emit("Round.lean", t)
