"""rust2lean: a translator for CODE — regenerates Lean 4 definitions from the Rust source text of chrono's pure
integer-arithmetic core on every run (plugin of tools/extract.py; output lean/Chrono/Extracted/Gen.lean, namespace
`Chrono.Gen`, one `def` per Rust function, named `<module>.<Type>.<fn>`, e.g. `Chrono.Gen.naive_internals.YearFlags.nisoweeks`).

The theorems `gen_*_eq` in lean/Chrono/Props/Gen{Date,Delta,Weekday,Time,…}.lean state that each generated definition
equals the hand-written model (lean/Chrono/Model/*.lean) for all arguments of the machine types; they are proof
obligations of C01 / C06 / C19, re-checked on every run against what the source says now.  What is trusted is this
file: the reading of the Rust subset described below, plus lean/Chrono/GenRt.lean and Chrono/Prim.lean, which
define the machine operations the generated text refers to.

WHAT IS TRANSLATED.  The functions listed in TARGETS and, transitively, every function they call.  A function that
is not in the subset is REFUSED: no definition is emitted, the reason is listed at the end of Gen.lean
(`Chrono.Gen.refused`) and in the snapshot, and every `gen_*_eq` theorem about it (or about a caller) stops
compiling.  Nothing is approximated silently.  A target that cannot be located at all is reported `stale`.

THE SUBSET.
  items       `fn` / `const fn` (free, inherent `impl T`, `impl Trait for T`, trait default methods read at a given
              `Self`), without type parameters of their own, by-value / `&self` receivers; `&mut self` receivers of
              functions without a result (see MUTABLE RECEIVERS); functions of generic impls read at a concrete
              instantiation (see GENERIC IMPLS); `const` / `static` items with integer, bool or
              struct-literal initialisers (evaluated at translation time, `as` wraps, result checked against the
              declared type); a `const` whose initialiser calls a `const fn` (`NaiveDate::BEFORE_MIN`) is read as a
              function without parameters (`def …BEFORE_MIN : Res Int`; compile-time evaluation has the run-time
              semantics, a panic there would be a compile error); `struct T(int)` and `struct T { one field }` are
              represented by that field; `struct T { f: A, g: B, … }` by a generated Lean `structure` whose fields
              have the Lean types of A, B, … (`Int` for integers, newtypes and field-less enums, the generated
              structure for a nested struct: `NaiveDateTime { date: NaiveDate, time: NaiveTime }`); a unit struct
              (`struct Utc;`) by Lean's `Unit`, its value `Utc` by `()`; field-less `enum`s by
              their discriminant (an `Int`); `NonZeroI32` & co. by the underlying integer (`get`, `new_unchecked`
              are the identity); references are erased (all values are `Copy`).
  statements  `let` (with tuple / newtype patterns, shadowing), `let mut` with `=`, `+= -= *= /= %= <<= >>= &= |= ^=`
              on local variables (re-binding; code after an `if` that assigns is duplicated into both branches), local
              `const`, a plain `use path::Name;` whose `Name` is nothing of the translated files (an external trait:
              it cannot change what a path of the body refers to; any other `use` is refused), expression
              statements, `return`, `if` / `if … else` / `if let Some(x) = …`, `match` on
              integers (literals, `a..=b` ranges, named constants, `_`, a binding), on bools, on field-less enums and
              on `Option` (`Some(p)` / `None` / `_`); blocks, `unsafe { }` blocks.
  expressions integer literals (any radix, `_`, suffixes; unsuffixed literals typed by unification, default i32),
              `true/false`, variables, constants, `iN::MAX/MIN`, module-level `const NAME: [intN; n] = [e, …];` arrays
              of integer constant expressions (written out as a list literal where used, elements checked against
              the element type), `opt.map(|p| e)` / `opt.and_then(|p| e)` with a one-parameter closure written in
              place and without `return` / `?` in it (read as the `match` that defines them: `Some(p) => Some(e)` resp.
              `Some(p) => e`, `None => None`; a closure anywhere else is refused), `+ - * / % << >> & | ^ !` and unary `-`, comparisons,
              `&& || !`, `as` between integer types / from bool / from a field-less enum, `iN::from`, tuples, array
              literals and indexing of integer arrays, indexing of the tables tools/extract.py already translates
              (YEAR_TO_FLAGS, MDL_TO_OL, OL_TO_MDL, YEAR_DELTAS: read from Extracted/Tables.lean), struct literals
              (also with a base, `T { f: e, ..base }`: the fields not listed are read from `base`, which is
              evaluated after the listed fields), field access, calls of translated functions and methods, `Some/None`, `try_opt!(e)` and `e?` on Option,
              `crate::expect(opt, msg)`, `.unwrap()`, `.expect("…")` (the method, with a string literal: as
              `.unwrap()`), `.unwrap_or(d)` on an Option of an integer-represented
              type (`opt.getD d`; `d` is evaluated first, as in Rust), `.is_some()/.is_none()`, `checked_add/sub/mul`,
              `div_euclid/rem_euclid`, `abs`, `debug_assert!/assert!(…)`, `debug_assert_eq!/…_ne!`,
              `panic!/unreachable!`; `Result<T, E>` values (see RESULT); the std type `core::time::Duration` (see
              BUILT-IN STD ITEMS).
  refused     everything else, in particular: functions with type parameters of their own (`fn f<T>`) other than free
              functions instantiated by a call (see GENERIC FREE FUNCTIONS), generic
              enums (`LocalResult<T>`), closures, loops, `&mut` borrows and `&mut` parameters other than the receiver,
              floats, chars / strings as values, slices, iterators, trait objects, struct patterns, match
              guards, wrapping_/overflowing_/saturating_ methods, functions without a result (other than
              `&mut self` ones), turbofish paths, `?` that converts the error type.

RESULT.  `Result<T, E>` is `GenRt.Result T' E'` (`.ok v` | `.err e`; T', E' the Lean types of T, E: a field-less error
enum is its discriminant, a unit-like error struct such as `OutOfRangeError(())` is `Unit`).  `Ok(e)` / `Err(e)`,
`match r { Ok(p) => …, Err(p) => …, _ => … }` (read as the Lean `match`; the inner patterns are bindings, `_` or
irrefutable), `r?` in a function whose declared error type is the error type of `r` (then the `From` conversion that
`?` applies is the identity of `impl<T> From<T> for T`; any other `?` is refused): `Ok(v)` continues with `v`, `Err(x)`
returns `Err(x)`; `.unwrap()` / `.expect("…")` (panic on `Err`), `.is_ok()`, `.is_err()`, `.ok()`.  Nothing else
(`map_err`, `and_then`, `unwrap_or`, … on a Result are refused).

BUILT-IN STD ITEMS.  `core::time::Duration` — only in a file with a top-level `use core::time::Duration;` (or
`std::time::Duration`), and only when the translated files define no type of that name — is the Lean structure
`core_time.Duration` with the fields `secs : u64`, `nanos : u32` (std's documented representation, invariant
`nanos < 10^9`; the fields are private: field access and struct literals are refused).  Its functions `Duration::new`
(std's text: nanoseconds of a second or more are carried into the seconds with `checked_add(…).expect(…)`, i.e. a
panic when the carry leaves `u64`), `as_secs`, `subsec_nanos` are written into Gen.lean from the table BUILTIN_FNS of
this file (trusted text, like GenRt.lean); every other function of the type is refused.

GENERIC FREE FUNCTIONS, OPERATORS ON STRUCTS, `cmp`, `ok_or`.  A call `f(args)` of a free function with type parameters
of its own (`fn duration_round<T>(naive: NaiveDateTime, original: T, duration: TimeDelta)`) is read at the
instantiation the call fixes: every type parameter must be the declared type of an argument (`original: T`) and is
bound to the (named) type of that argument; the body is translated afresh for it (`round.duration_round_NaiveDateTime`,
`round.duration_round_DateTime_FixedOffset`); its bounds / `where` clause are not evaluated (rustc has checked them
for that call); such a function cannot be a target by itself.  `a + b` / `a - b` with `a` of a struct type is the
`add` / `sub` of the one `impl Add<type of b> for type of a` (also of a generic impl read at the instantiation);
none or several: refused.  `x.cmp(&y)` on integers is `core::cmp::Ordering` (built in like `Duration`, needs the
`use core::cmp::Ordering;`; discriminants `Less = -1, Equal = 0, Greater = 1`), matched like any field-less enum.
`opt.ok_or(e)` is `GenRt.Result.okOr opt e` (`e` evaluated eagerly, as in Rust).  `Self::Err` inside
`impl Trait for T` is the `type Err = …;` of that very impl (two impls of different traits may each define one), inside
`impl<Tz> Trait for DateTime<Tz>` read at an instantiation that of the one impl of the trait covering it.

IMPLS OF ONE TRAIT WITH DIFFERENT ARGUMENTS (`impl Add<TimeDelta> for NaiveTime`, `impl Add<Duration> for NaiveTime`,
`impl Add<FixedOffset> for NaiveTime`; `impl<Tz: TimeZone> Add<Duration> for DateTime<Tz>`).  The items keep the
arguments of the trait; a target names them (`(file, "NaiveTime", "add", "Add<Duration>")`,
`(file, "DateTime<Utc>", "add", "Add<Duration>")`), and the definition is then called `….Add_Duration.add`.  A call
by method name (`a.add(b)`) stays refused when more than one impl has the method.

GENERIC IMPLS (read at a concrete instantiation; nothing is translated "for all Tz").
  types       a generic struct `struct DateTime<Tz: TimeZone> { datetime: NaiveDateTime, offset: Tz::Offset }` is not
              a type of the subset; each instantiation named by a target (`DateTime<Utc>`, `DateTime<FixedOffset>`) or
              reached from one is a struct of its own — Lean structure `<module>.DateTime_Utc` — whose field types
              are the declared ones with the parameters replaced.  Type arguments must be named types.  In the body of
              an instantiated function `Tz` is the argument, `Self` / `DateTime<Tz>` the instantiated struct, and an
              associated type `Tz::Offset` / `Self::Offset` is the right-hand side of the item `type Offset = …;` in
              the (non-generic) `impl … for <the concrete type>` of the translated files; refused if there is none.
  functions   `DateTime<Utc>::f` is the `f` of the impl `impl<…> DateTime<args>` whose header covers the
              instantiation: a parameter of the impl matches any argument (consistently), a concrete argument
              (`impl DateTime<Utc>`) only itself; inherent impls before trait impls (Rust's lookup order); more than
              one covering impl with an `f` is refused.  Bounds and `where` clauses of the impl are not evaluated
              (rustc has checked them for every call that exists; a target names the instantiation explicitly).  The
              body is type-checked and translated afresh for each instantiation (`DateTime_Utc.timestamp`,
              `DateTime_FixedOffset.timestamp` are two definitions).
  calls       `Tz::f(…)`: the `f` of the concrete type.  `Trait::f(…)` (`TimeZone::from_offset(&self.offset)`): the
              impl is chosen by `Self`, read off the first argument when `f` has a receiver and off the expected type
              when `f` returns `Self`; the resolved function must belong to that trait.  `DateTime::f(…)` /
              `DateTime { … }` without type arguments: the instantiation is the expected type (the declared result /
              `let` / parameter type the expression flows into; the result is unified with that type afterwards, so a
              wrong expectation is a refusal, never another reading).  A method call on a value of a concrete type
              finds inherent methods, then methods of `impl Trait for T`, then default methods of the traits `T`
              implements (read at `Self = T`).  Because a value whose declared type is a parameter (`Tz`,
              `Tz::Offset`, `Self` in a default method) only has the methods of its trait bounds in Rust, while at
              the concrete type an inherent method of the same name would win, a call on a type that is the image of
              a parameter of the enclosing function is refused when the name is both an inherent and a trait method.
  impls with a generic TRAIT only (`impl Mul<i32> for TimeDelta`): ordinary impls, filed under the trait's name; two
              impls of one trait for one type (`Mul<i32>`, `Mul<i64>`) make the name ambiguous for a call, which is
              refused (a target can name the argument, see IMPLS OF ONE TRAIT WITH DIFFERENT ARGUMENTS).

MUTABLE RECEIVERS.  `fn f(&mut self, args)` without a result is read as the function from the OLD value of `*self`
(and the arguments) to the NEW value of `*self`: `self` is a re-bound local, written only by `*self = e;` (an
assignment to a field of `self`, a `&mut` re-borrow or a call of another `&mut self` function is refused), the result
is its final value.  (`impl AddAssign for TimeDelta`: `a += b` is `a := add_assign a b`.)

SEMANTICS (the build under test: overflow checks and debug assertions ON, 64-bit `usize`).
  values      every integer is an unbounded Lean `Int` lying in the range of its Rust type; the generated definitions
              are exact for arguments in the ranges of their parameter types (enum arguments: a valid discriminant).
  results     a function none of whose operations can panic is a plain Lean function; any other returns `Res T`
              (`.ok v` | `.panic`), sequenced with explicit `Res.bind`, evaluation order as in Rust (operands left to
              right, `&&`/`||` short-circuit when the right operand can panic).
  + - *       on type T: `ckT (a op b)` — panic when the exact result is outside T.  Unary `-`: `ckT (-a)`.
              Operations on compile-time constants are folded (a constant overflow is refused).
  / %         `Int.tdiv` / `Int.tmod` on signed types, `/` `%` on unsigned ones (operands non-negative); a run-time
              divisor goes through `GenRt.tdivCk/tmodCk/edivCk/emodCk`: panic on zero, on `MIN / -1` and `MIN % -1`.
  div_euclid / rem_euclid   Lean's `Int` `/` and `%` (Euclidean for every sign), same panics.
  checked_*   `optT (a op b)`: `none` when the exact result is outside T.
  as          to a type that contains the source type: nothing; otherwise two's-complement truncation `asT`
              (`x mod 2^w`, re-centred for signed T); bool → `if b then 1 else 0`; enum → its discriminant.
  >>          by a constant k (0 ≤ k < width, else refused): floor division `a / 2^k` — exact for signed values too
              (arithmetic shift).  By a run-time amount: `GenRt.shrCk w a k`, panic unless 0 ≤ k < w.
  <<          bits shifted out are dropped, no overflow check (only the amount is checked): unsigned
              `a * 2^k % 2^w`, signed `asT (a * 2^k)`; run-time amount: `GenRt.shlCk`.
  &           with a compile-time mask m: written arithmetically, field by field: for every maximal run of ones of m at
              bits j … j+n-1 the term `a / 2^j % 2^n * 2^j` (floor division and non-negative remainder: the
              two's-complement bits of a, also for negative a); a mask whose top bit is set (`!0b1111`) is read as
              `a - (a & !m)`.  Two run-time operands: `GenRt.landU` (unsigned: `Nat.land`) / `GenRt.landI w asT`
              (signed: the operation on the bit patterns `x mod 2^w`, cast back).
  | ^         two run-time operands: `GenRt.lorU/lxorU`, `GenRt.lorI/lxorI w asT` as above (no arithmetic reading is
              guessed: that `(year << 13) | (ordinal << 4) | flags` is a sum is PROVED in the gen_*_eq theorems).
  !           bool: negation; unsigned integer: `MAX - a`; signed: `-1 - a`.
  indexing    `GenRt.idxN TABLE i` / `GenRt.idxL [..] i`: panic when the index is out of bounds.
  match       integer / enum matches become `if … else if …` chains in arm order; the LAST arm is the `else` branch
              (rustc has checked exhaustiveness, so under the range invariant this is exact).
  asserts     `debug_assert!(c)` / `assert!(c)`: `if ¬c then .panic else …` (debug assertions are on in the harness).
  expect / unwrap on `None`, `panic!`, `unreachable!`: `.panic`.
  bools       conditions are Lean `Prop`s (`a < b ∧ c`); a bool that is stored, passed or returned is `decide (…)`.

NAMES.  `<module>.<Type>.<fn>` for inherent and free functions, `<module>.<Type>.<Trait>.<fn>` for a method of
`impl Trait for Type` and for a trait default method read at `Self = Type` (module = the trait's file).  An
instantiated generic struct `DateTime<Utc>` is called `DateTime_Utc`.  A function named like a field of its own
multi-field struct gets the suffix `_fn` (`NaiveDateTime.date_fn`; `NaiveDateTime.date` is the projection of the
generated structure).  When a local variable of the function is called like the module of a callee or of a
structure (`weekday`, `datetime`), that name is written in full, `Chrono.Gen.<module>.…` (Lean would otherwise
read `weekday.Weekday.f` as a projection of the local).

NORMAL FORM of the output: `do`-free, one `def` per function, `let` for Rust `let`s (always with the Lean type),
`Res.bind (…) fun x =>` for each panicking step (bound to the Rust variable's name when it initialises or updates
one, else to r1, r2, …), `match … with | some x => … | none => …` for Option steps, constants inlined as literals.
The text is a function of the source text only (deterministic).
"""
import re


class Refuse(Exception):
    """the item is outside the translated subset (reported, never approximated)"""


class NotFound(Refuse):
    """a function that is not defined in the translated files at all (a stale target)"""


def qualify(text, used, mods):
    """write `<module>.X` as `Chrono.Gen.<module>.X` for every module that is also the name of a local variable of
    the function (Lean would read `datetime.DateTime_Utc` as a projection of the local `datetime`)"""
    hit = [m for m in mods if m in used]
    if not hit:
        return text
    return re.sub(r"(?<![\w.])(" + "|".join(sorted(hit)) + r")\.(?=[A-Za-z_])", r"Chrono.Gen.\1.", text)


def lean_ident(name):
    """`DateTime<Utc>` -> `DateTime_Utc` (the Lean name of an instantiated generic struct)"""
    return name.replace("<", "_").replace(", ", "_").replace(">", "")


# ------------------------------------------------------------------------------------------------ lexer
class Tok:
    __slots__ = ("k", "v", "suf", "pos")

    def __init__(self, k, v, pos, suf=None):
        self.k, self.v, self.pos, self.suf = k, v, pos, suf

    def __repr__(self):
        return f"{self.k}:{self.v}"


_PUNCT = ["<<=", ">>=", "..=", "...", "::", "->", "=>", "==", "!=", "<=", ">=", "&&", "||", "<<", ">>",
          "+=", "-=", "*=", "/=", "%=", "&=", "|=", "^=", ".."]
_NUM = re.compile(r"(0b[01_]+|0o[0-7_]+|0x[0-9a-fA-F_]+|\d[\d_]*)((?:[iu](?:8|16|32|64|128|size))?)")
_FLOAT = re.compile(r"\d[\d_]*\.\d[\d_]*(?:[eE][+-]?\d+)?(?:f32|f64)?|\d[\d_]*(?:[eE][+-]?\d+)(?:f32|f64)?|\d[\d_]*(?:f32|f64)")
_ID = re.compile(r"[A-Za-z_]\w*")
_CHAR = re.compile(r"b?'(?:[^'\\\n]|\\[^\n]*?)'")
_LIFE = re.compile(r"'[A-Za-z_]\w*")
_STR = re.compile(r'b?"(?:[^"\\]|\\.)*"', re.S)
_RAW = re.compile(r'b?r(#*)"')


def lex(src):
    toks = []
    i, n = 0, len(src)
    while i < n:
        c = src[i]
        if c.isspace():
            i += 1
            continue
        if src.startswith("//", i):
            j = src.find("\n", i)
            i = n if j < 0 else j
            continue
        if src.startswith("/*", i):
            depth, i = 1, i + 2
            while i < n and depth:
                if src.startswith("/*", i):
                    depth, i = depth + 1, i + 2
                elif src.startswith("*/", i):
                    depth, i = depth - 1, i + 2
                else:
                    i += 1
            continue
        m = _RAW.match(src, i)
        if m:
            close = '"' + m.group(1)
            j = src.find(close, m.end())
            if j < 0:
                raise Refuse("unterminated raw string")
            toks.append(Tok("str", src[i:j + len(close)], i))
            i = j + len(close)
            continue
        m = _STR.match(src, i)
        if m:
            toks.append(Tok("str", m.group(0), i))
            i = m.end()
            continue
        if c == "'" or (c == "b" and src.startswith("b'", i)):
            m = _CHAR.match(src, i)
            if m:
                toks.append(Tok("char", m.group(0), i))
                i = m.end()
                continue
            m = _LIFE.match(src, i)
            if m:
                toks.append(Tok("life", m.group(0), i))
                i = m.end()
                continue
        if c.isdigit():
            prev_dot = bool(toks) and toks[-1].k == "p" and toks[-1].v == "."
            m = None if prev_dot else _FLOAT.match(src, i)
            if m:
                toks.append(Tok("float", m.group(0), i))
                i = m.end()
                continue
            m = _NUM.match(src, i)
            txt = m.group(1).replace("_", "")
            if txt.startswith("0b"):
                v = int(txt[2:], 2)
            elif txt.startswith("0o"):
                v = int(txt[2:], 8)
            elif txt.startswith("0x"):
                v = int(txt[2:], 16)
            else:
                v = int(txt)
            toks.append(Tok("num", v, i, m.group(2) or None))
            i = m.end()
            continue
        m = _ID.match(src, i)
        if m:
            toks.append(Tok("id", m.group(0), i))
            i = m.end()
            continue
        for p in _PUNCT:
            if src.startswith(p, i):
                toks.append(Tok("p", p, i))
                i += len(p)
                break
        else:
            toks.append(Tok("p", c, i))
            i += 1
    toks.append(Tok("eof", "", n))
    return toks


# ------------------------------------------------------------------------------------------------ AST
class N:
    """AST node: `k` = kind, other fields by keyword; `ty` is filled in by type inference"""

    def __init__(self, k, **kw):
        self.k = k
        self.ty = None
        self.__dict__.update(kw)

    def __repr__(self):
        return "N(" + self.k + ", " + ", ".join(f"{a}={b!r}" for a, b in self.__dict__.items() if a not in ("k", "ty")) + ")"


INT_TYPES = {
    "i8": (8, True), "i16": (16, True), "i32": (32, True), "i64": (64, True), "i128": (128, True), "isize": (64, True),
    "u8": (8, False), "u16": (16, False), "u32": (32, False), "u64": (64, False), "u128": (128, False),
    "usize": (64, False),
}
NONZERO = {"NonZeroI8": "i8", "NonZeroI16": "i16", "NonZeroI32": "i32", "NonZeroI64": "i64",
           "NonZeroU8": "u8", "NonZeroU16": "u16", "NonZeroU32": "u32", "NonZeroU64": "u64"}


def int_range(t):
    w, s = INT_TYPES[t]
    return (-(1 << (w - 1)), (1 << (w - 1)) - 1) if s else (0, (1 << w) - 1)


def wrap_int(v, t):
    w, s = INT_TYPES[t]
    v &= (1 << w) - 1
    if s and v >= 1 << (w - 1):
        v -= 1 << w
    return v


# binary operator precedence (higher binds tighter); `as` and unary operators are handled separately
BINPREC = {"*": 10, "/": 10, "%": 10, "+": 9, "-": 9, "<<": 8, ">>": 8, "&": 7, "^": 6, "|": 5,
           "==": 4, "!=": 4, "<": 4, ">": 4, "<=": 4, ">=": 4, "&&": 3, "||": 2}
ASSIGN_OPS = {"=", "+=", "-=", "*=", "/=", "%=", "<<=", ">>=", "&=", "|=", "^="}


class Parser:
    def __init__(self, toks, i=0, tparams=()):
        self.t, self.i = toks, i
        self.tparams = set(tparams)      # names of the type parameters in scope (generic impl / generic struct)
        self.half = None                 # index of a `>>` token whose first `>` has been consumed

    # -- token helpers
    def peek(self, o=0):
        return self.t[min(self.i + o, len(self.t) - 1)]

    def at(self, v, o=0):
        x = self.peek(o)
        return x.k in ("p", "id") and x.v == v

    def eat(self, v):
        if self.at(v):
            self.i += 1
            return True
        return False

    def expect(self, v):
        if not self.eat(v):
            raise Refuse(f"parse: expected `{v}` but found `{self.peek().v}`")

    def ident(self):
        x = self.peek()
        if x.k != "id":
            raise Refuse(f"parse: expected an identifier but found `{x.v}`")
        self.i += 1
        return x.v

    def skip_balanced(self):
        """skip one (...) [...] {...} group starting at the current token"""
        op = self.peek().v
        cl = {"(": ")", "[": "]", "{": "}"}[op]
        depth = 0
        while True:
            x = self.peek()
            if x.k == "eof":
                raise Refuse("parse: unbalanced brackets")
            if x.k == "p" and x.v in "([{":
                depth += 1
            elif x.k == "p" and x.v in ")]}":
                depth -= 1
            self.i += 1
            if depth == 0:
                return

    def skip_generics(self):
        """skip `<...>` at the current token (no expressions inside, so `>>` closes two levels)"""
        depth = 0
        while True:
            x = self.peek()
            if x.k == "eof":
                raise Refuse("parse: unbalanced <>")
            if x.k == "p":
                if x.v == "<":
                    depth += 1
                elif x.v == ">":
                    depth -= 1
                elif x.v == ">>":
                    depth -= 2
                elif x.v == "->":
                    pass
                elif x.v in "([{":
                    self.skip_balanced()
                    continue
            self.i += 1
            if depth <= 0:
                return

    # -- types
    def parse_type(self):
        if self.eat("&") or self.eat("&&"):
            if self.peek().k == "life":
                self.i += 1
            mut = self.eat("mut")
            t = self.parse_type()
            return ("mutref", t) if mut else t
        if self.eat("("):
            ts = []
            while not self.at(")"):
                ts.append(self.parse_type())
                if not self.eat(","):
                    break
            self.expect(")")
            if not ts:
                return ("unit",)
            return ts[0] if len(ts) == 1 else ("tuple", tuple(ts))
        if self.eat("["):
            t = self.parse_type()
            n = None
            if self.eat(";"):
                n = self.parse_expr()
            self.expect("]")
            return ("array", t, n)
        if self.at("impl") or self.at("dyn") or self.at("fn") or self.at("*"):
            raise Refuse("type outside the subset (impl/dyn/fn/raw pointer)")
        segs = [self.ident()]
        args = []
        while True:
            if self.at("::") and self.peek(1).k == "id":
                self.i += 1
                segs.append(self.ident())
            elif self.at("<") or (self.at("::") and self.at("<", 1)):
                self.eat("::")
                self.expect("<")
                while not (self.at(">") or self.at(">>")):
                    if self.peek().k == "life":
                        self.i += 1
                    else:
                        args.append(self.parse_type())
                    if not self.eat(","):
                        break
                if self.at(">>"):      # split `>>` (the token list is shared between readings: not modified)
                    if self.half == self.i:
                        self.half = None
                        self.i += 1
                    else:
                        self.half = self.i
                else:
                    self.expect(">")
                break
            else:
                break
        name = segs[-1]
        if name in INT_TYPES and len(segs) == 1:
            return ("int", name)
        if name in NONZERO:
            return ("int", NONZERO[name])
        if name == "bool":
            return ("bool",)
        if name == "Option" and len(args) == 1:
            return ("opt", args[0])
        if name == "Result" and len(args) == 2:
            return ("res", args[0], args[1])
        if name == "Self" and len(segs) == 1:
            return ("self",)
        if len(segs) == 1 and name in self.tparams and not args:
            return ("tparam", name)
        if len(segs) == 2 and not args and (segs[0] == "Self" or segs[0] in self.tparams):
            # an associated type of the impl type / of a type parameter: `Self::Offset`, `Tz::Offset`
            return ("assoc", ("self",) if segs[0] == "Self" else ("tparam", segs[0]), name)
        if name == "Self":
            return ("self",)
        if args:
            return ("gen", name, tuple(args), "::".join(segs) + "<…>")
        return ("adt", name)

    # -- patterns
    def parse_pat_atom(self):
        x = self.peek()
        if self.eat("_"):
            return N("pwild")
        if self.eat("&"):
            return self.parse_pat_atom()
        if self.eat("("):
            ps = []
            while not self.at(")"):
                ps.append(self.parse_pat())
                if not self.eat(","):
                    break
            self.expect(")")
            return ps[0] if len(ps) == 1 else N("ptuple", pats=ps)
        if x.k == "num" or self.at("-"):
            lo = self.parse_pat_bound()
            if self.eat("..="):
                return N("prange", lo=lo, hi=self.parse_pat_bound())
            if self.at("..") or self.at("..."):
                raise Refuse("half-open / legacy range pattern")
            return N("plit", e=lo)
        if self.at("true") or self.at("false"):
            self.i += 1
            return N("pbool", v=(x.v == "true"))
        if self.eat("ref"):
            raise Refuse("`ref` pattern")
        mut = self.eat("mut")
        if self.peek().k != "id":
            raise Refuse(f"pattern outside the subset at `{self.peek().v}`")
        segs = [self.ident()]
        while self.at("::"):
            self.i += 1
            segs.append(self.ident())
        if self.at("("):
            self.i += 1
            ps = []
            while not self.at(")"):
                ps.append(self.parse_pat())
                if not self.eat(","):
                    break
            self.expect(")")
            return N("ptstruct", path=segs, pats=ps)
        if self.at("{"):
            raise Refuse("struct pattern")
        if self.at("@"):
            raise Refuse("`@` pattern")
        if self.eat("..="):
            return N("prange", lo=N("path", segs=segs), hi=self.parse_pat_bound())
        if len(segs) == 1 and (mut or not (segs[0][0].isupper())):
            return N("pbind", name=segs[0], mut=mut)
        return N("ppath", segs=segs)

    def parse_pat_bound(self):
        neg = self.eat("-")
        x = self.peek()
        if x.k == "num":
            self.i += 1
            e = N("lit", v=x.v, suf=x.suf)
        elif x.k == "id":
            segs = [self.ident()]
            while self.at("::"):
                self.i += 1
                segs.append(self.ident())
            e = N("path", segs=segs)
        else:
            raise Refuse("pattern bound outside the subset")
        return N("un", op="-", e=e) if neg else e

    def parse_pat(self):
        self.eat("|")
        p = self.parse_pat_atom()
        if self.at("|"):
            alts = [p]
            while self.eat("|"):
                alts.append(self.parse_pat_atom())
            return N("por", pats=alts)
        return p

    # -- expressions
    def parse_expr(self, nostruct=False):
        return self.parse_bin(0, nostruct)

    def parse_bin(self, minp, nostruct):
        lhs = self.parse_unary(nostruct)
        while True:
            x = self.peek()
            if x.k != "p":
                break
            op = x.v
            if op in ("..", "..="):
                raise Refuse("range expression")
            p = BINPREC.get(op)
            if p is None or p < minp:
                break
            self.i += 1
            rhs = self.parse_bin(p + 1, nostruct)
            lhs = N("bin", op=op, l=lhs, r=rhs)
        return lhs

    def parse_unary(self, nostruct):
        if self.at("-") or self.at("!") or self.at("*"):
            op = self.peek().v
            self.i += 1
            e = self.parse_unary(nostruct)
            if op == "*":
                return e            # deref of a reference to a Copy value
            return N("un", op=op, e=e)
        if self.at("&") or self.at("&&"):
            self.i += 1
            if self.eat("mut"):
                raise Refuse("`&mut` borrow")
            return self.parse_unary(nostruct)
        e = self.parse_postfix(nostruct)
        while self.at("as"):
            self.i += 1
            e = N("cast", e=e, to=self.parse_type())
        return e

    def parse_args(self):
        self.expect("(")
        args = []
        while not self.at(")"):
            args.append(self.parse_expr())
            if not self.eat(","):
                break
        self.expect(")")
        return args

    def parse_postfix(self, nostruct):
        e = self.parse_primary(nostruct)
        while True:
            if self.at("?"):
                self.i += 1
                e = N("try", e=e)
            elif self.at("."):
                x = self.peek(1)
                if x.k == "num":
                    self.i += 2
                    e = N("field", e=e, name=str(x.v))
                elif x.k == "id":
                    self.i += 2
                    if x.v == "await":
                        raise Refuse("await")
                    if self.at("::"):
                        raise Refuse("turbofish method call")
                    if self.at("("):
                        e = N("mcall", recv=e, name=x.v, args=self.parse_args())
                    else:
                        e = N("field", e=e, name=x.v)
                else:
                    raise Refuse("parse: `.` followed by `" + str(x.v) + "`")
            elif self.at("["):
                self.i += 1
                ix = self.parse_expr()
                self.expect("]")
                e = N("index", e=e, i=ix)
            elif self.at("(") and e.k == "path":
                e = N("call", path=e.segs, args=self.parse_args())
            else:
                return e

    def parse_block(self):
        self.expect("{")
        stmts, tail = [], None
        while not self.at("}"):
            if self.eat(";"):
                continue
            if self.at("#"):
                raise Refuse("attribute inside a function body")
            if self.at("let"):
                self.i += 1
                pat = self.parse_pat()
                ty = None
                if self.eat(":"):
                    ty = self.parse_type()
                init = None
                if self.eat("="):
                    init = self.parse_expr()
                if self.at("else"):
                    raise Refuse("let-else")
                self.expect(";")
                if init is None:
                    raise Refuse("`let` without initialiser")
                stmts.append(N("let", pat=pat, dty=ty, init=init))
                continue
            if self.at("const") and self.peek(1).k == "id" and self.peek(1).v != "fn":
                self.i += 1
                name = self.ident()
                self.expect(":")
                ty = self.parse_type()
                self.expect("=")
                e = self.parse_expr()
                self.expect(";")
                stmts.append(N("lconst", name=name, dty=ty, e=e))
                continue
            if self.at("use"):
                j = self.i
                while not self.at(";"):
                    if self.peek().k == "eof" or (self.peek().k == "p" and self.peek().v in "{}*") or self.at("as"):
                        raise Refuse("`use` inside a function body (other than a plain `use path::Name;`)")
                    self.i += 1
                stmts.append(N("use", name=self.t[self.i - 1].v))
                self.i += 1
                continue
            for kw in ("fn", "struct", "enum", "impl", "use", "static", "loop", "while", "for", "mod", "trait", "type"):
                if self.at(kw):
                    raise Refuse(f"`{kw}` inside a function body")
            if self.at("if") or self.at("match") or self.at("{") or (self.at("unsafe") and self.at("{", 1)):
                e = self.parse_primary(False)      # block-like expression statement
                if self.at("}"):
                    tail = e
                elif self.at(".") or self.at("?") or self.at("as"):
                    raise Refuse("block-like expression followed by a postfix operator")
                else:
                    self.eat(";")
                    stmts.append(N("estmt", e=e))
                continue
            e = self.parse_expr()
            if self.peek().k == "p" and self.peek().v in ASSIGN_OPS:
                op = self.peek().v
                self.i += 1
                rhs = self.parse_expr()
                e = N("assign", op=op, lhs=e, rhs=rhs)
                if not self.at("}"):
                    self.expect(";")
                stmts.append(e)
                continue
            if self.eat(";"):
                stmts.append(N("estmt", e=e))
            elif self.at("}"):
                tail = e
            elif e.k in ("if", "match", "block"):
                stmts.append(N("estmt", e=e))
            else:
                raise Refuse(f"parse: expected `;` or `}}` but found `{self.peek().v}`")
        self.expect("}")
        return N("block", stmts=stmts, tail=tail)

    def parse_if(self):
        self.expect("if")
        if self.eat("let"):
            pat = self.parse_pat()
            self.expect("=")
            scrut = self.parse_expr(nostruct=True)
            cond = N("letcond", pat=pat, e=scrut)
        else:
            cond = self.parse_expr(nostruct=True)
        then = self.parse_block()
        els = None
        if self.eat("else"):
            els = N("block", stmts=[], tail=self.parse_if()) if self.at("if") else self.parse_block()
        return N("if", c=cond, t=then, f=els)

    def parse_primary(self, nostruct):
        x = self.peek()
        if x.k == "num":
            self.i += 1
            return N("lit", v=x.v, suf=x.suf)
        if x.k == "float":
            raise Refuse("floating-point literal")
        if x.k == "str":
            self.i += 1
            return N("str", v=x.v)
        if x.k == "char":
            raise Refuse("char / byte literal")
        if x.k == "life":
            raise Refuse("labelled block / loop")
        if self.at("("):
            self.i += 1
            es = []
            trailing = False
            while not self.at(")"):
                es.append(self.parse_expr())
                trailing = False
                if not self.eat(","):
                    break
                trailing = True
            self.expect(")")
            if len(es) == 1 and not trailing:
                return N("paren", e=es[0])
            return N("tuple", es=es)
        if self.at("["):
            self.i += 1
            es = []
            while not self.at("]"):
                es.append(self.parse_expr())
                if self.at(";"):
                    raise Refuse("array repeat expression")
                if not self.eat(","):
                    break
            self.expect("]")
            return N("array", es=es)
        if self.at("{"):
            return self.parse_block()
        if self.at("unsafe") and self.at("{", 1):
            self.i += 1
            return self.parse_block()
        if self.at("if"):
            return self.parse_if()
        if self.at("match"):
            self.i += 1
            scrut = self.parse_expr(nostruct=True)
            self.expect("{")
            arms = []
            while not self.at("}"):
                pat = self.parse_pat()
                guard = None
                if self.eat("if"):
                    guard = self.parse_expr()
                self.expect("=>")
                body = self.parse_expr()
                if not self.eat(","):
                    if not self.at("}") and body.k not in ("block", "if", "match"):
                        raise Refuse("parse: match arm")
                arms.append((pat, guard, body))
            self.expect("}")
            return N("match", e=scrut, arms=arms)
        if self.at("return"):
            self.i += 1
            if self.at(";") or self.at("}") or self.at(","):
                return N("return", e=None)
            return N("return", e=self.parse_expr())
        if self.at("true") or self.at("false"):
            self.i += 1
            return N("bool", v=(x.v == "true"))
        if self.at("|"):
            # a closure `|pattern, …| body` (only accepted as the argument of Option::map / and_then, see infer_mcall)
            self.i += 1
            ps = []
            while not self.at("|"):
                ps.append(self.parse_pat_atom())
                if self.eat(":"):
                    self.parse_type()          # an annotation restates what rustc has inferred
                if not self.eat(","):
                    break
            self.expect("|")
            if self.at("->"):
                raise Refuse("closure with a declared result type")
            return N("closure", params=ps, body=self.parse_expr())
        for kw in ("loop", "while", "for", "break", "continue", "move", "async", "||"):
            if self.at(kw):
                raise Refuse(f"`{kw}` (loops / closures are outside the subset)")
        if x.k == "id":
            segs = [self.ident()]
            while self.at("::"):
                if self.at("<", 1):
                    raise Refuse("turbofish / qualified path")
                self.i += 1
                segs.append(self.ident())
            if self.at("!") and not self.at("!=", 0):
                self.i += 1
                if not self.at("("):
                    raise Refuse(f"macro `{segs[-1]}!` with non-() delimiters")
                return N("macro", name=segs[-1], args=self.parse_args())
            if self.at("{") and not nostruct and (segs[-1][0].isupper()):
                self.i += 1
                fs = []
                base = None
                while not self.at("}"):
                    if self.eat(".."):
                        base = self.parse_expr()
                        break
                    fname = self.ident()
                    if self.eat(":"):
                        fe = self.parse_expr()
                    else:
                        fe = N("path", segs=[fname])
                    fs.append((fname, fe))
                    if not self.eat(","):
                        break
                self.expect("}")
                return N("slit", path=segs, fields=fs, base=base)
            return N("path", segs=segs)
        if self.at("<"):
            raise Refuse("qualified path `<T as Trait>::…`")
        raise Refuse(f"parse: unexpected `{x.v}`")


# ------------------------------------------------------------------------------------------------ items
class FnItem:
    def __init__(self, mod, owner, trait, name, toks, sig_i, generic, rel):
        self.mod, self.owner, self.trait, self.name = mod, owner, trait, name
        self.toks, self.sig_i, self.generic, self.rel = toks, sig_i, generic, rel
        self.parsed = None
        self.mut_self = False  # `&mut self` receiver (see parse)
        self.tsubst = {}       # type parameter of the enclosing generic impl -> the concrete type it is read at
        self.gimpl = None      # header of the enclosing generic impl (see Crate.impl_header)
        self.targs = ()        # type arguments of the trait of `impl Trait<args> for Type` (`Add<Duration>`)
        self.gparams = []      # names of the function's own type parameters (`fn f<T>`)
        self.ginst = None      # for an instantiation of a generic function: the Lean name suffix (`NaiveDateTime`)

    def rust_path(self):
        o = self.owner or ""
        if self.trait and self.owner:
            ta = "<" + ", ".join(show_type(a) for a in self.targs) + ">" if self.targs else ""
            o = f"<{self.owner} as {self.trait}{ta}>"
        elif self.trait:
            o = self.trait
        return (o + "::" if o else "") + self.name

    def parse_sig(self):
        """the signature only (also of a bodiless trait method declaration) -> (params, has_self, return type)"""
        return self.parse(sig_only=True)

    def parse(self, sig_only=False):
        """-> (params [(pattern, type)], has_self, return type, body block)"""
        if self.parsed:
            return self.parsed[:3] if sig_only else self.parsed
        p = Parser(self.toks, self.sig_i, self.tsubst)
        p.expect("(")
        params, has_self, mut_self = [], False, False
        while not p.at(")"):
            if p.at("#"):
                raise Refuse("attribute on a parameter")
            if (p.at("self") or (p.at("&") and (p.at("self", 1) or (p.peek(1).k == "life" and p.at("self", 2))))
                    or (p.at("&") and p.at("mut", 1) and p.at("self", 2))
                    or (p.at("&") and p.peek(1).k == "life" and p.at("mut", 2) and p.at("self", 3))
                    or (p.at("mut") and p.at("self", 1))):
                if p.eat("&"):
                    if p.peek().k == "life":
                        p.i += 1
                    if p.eat("mut"):
                        mut_self = True
                if p.eat("mut"):
                    raise Refuse("`mut self` receiver")
                p.expect("self")
                if p.at(":"):
                    raise Refuse("typed self receiver")
                has_self = True
            elif p.at("&") and p.at("mut", 1) and p.at("self", 2):
                raise Refuse("`&mut self` receiver")
            else:
                pat = p.parse_pat()
                p.expect(":")
                params.append((pat, p.parse_type()))
            if not p.eat(","):
                break
        p.expect(")")
        ret = ("unit",)
        if p.eat("->"):
            ret = p.parse_type()
        if sig_only:
            if mut_self:
                raise Refuse("`&mut self` receiver")
            return (params, has_self, ret)
        if p.at("where"):
            if self.ginst is None:
                raise Refuse("where clause")
            while not (p.at("{") or p.peek().k == "eof"):      # bounds of an instantiated generic function: rustc
                if p.at("<"):                                  # has checked them for the call that names it
                    p.skip_generics()
                elif p.at("(") or p.at("["):
                    p.skip_balanced()
                else:
                    p.i += 1
        if not p.at("{"):
            raise Refuse("function without a body")
        body = p.parse_block()
        self.idents = {t.v for t in self.toks[self.sig_i:p.i] if t.k == "id"}
        if mut_self:
            # `fn f(&mut self, …)` without a result: read as the function from the old value of `*self` to the new
            # one — `self` is a re-bound local (`*self = e;` is the only way it is written), the result is its
            # final value
            if ret != ("unit",):
                raise Refuse("`&mut self` receiver in a function with a result")
            stmts = list(body.stmts) + ([N("estmt", e=body.tail)] if body.tail is not None else [])
            body = N("block", stmts=stmts, tail=N("path", segs=["self"]))
            ret = ("self",)
        self.mut_self = mut_self
        self.parsed = (params, has_self, ret, body)
        return self.parsed


class BuiltinItem(FnItem):
    """a function of the standard library that is built into the translator (its Lean definition is part of the
    translator's trusted text, written into Gen.lean like a translated one): see BUILTIN_FNS"""

    def __init__(self, owner, name, spec):
        FnItem.__init__(self, spec["mod"], owner, None, name, [], 0, False, "std")
        self.spec = spec
        self.idents = set()

    def rust_path(self):
        return f"core::time::{self.owner}::{self.name}"


U64, U32 = ("int", "u64"), ("int", "u32")
DUR = ("adt", "Duration")
# `core::time::Duration` is the pair (secs: u64, nanos: u32 < 10^9) (its documented representation); `new` is std's
#   if nanos < NANOS_PER_SEC { Duration { secs, nanos } } else {
#       let secs = secs.checked_add((nanos / NANOS_PER_SEC) as u64).expect("overflow in Duration::new");
#       Duration { secs, nanos: nanos % NANOS_PER_SEC } }
BUILTIN_ADTS = {
    "Duration": dict(kind="struct", fields=[("secs", U64), ("nanos", U32)], mod="core_time", builtin=True),
    # `core::cmp::Ordering { Less = -1, Equal = 0, Greater = 1 }` (its declared discriminants)
    "Ordering": dict(kind="enum", variants=[("Less", -1), ("Equal", 0), ("Greater", 1)], mod="core_cmp", builtin=True),
}
BUILTIN_FNS = {
    ("Duration", "new"): dict(
        mod="core_time", params=[("secs", U64), ("nanos", U32)], ret=DUR, has_self=False, impure=True,
        body="if nanos < 1000000000 then .ok (core_time.Duration.mk secs nanos)\n"
             "else\n"
             "Res.bind (ckU64 (secs + nanos / 1000000000)) fun secs =>\n"
             ".ok (core_time.Duration.mk secs (nanos % 1000000000))"),
    ("Duration", "as_secs"): dict(
        mod="core_time", params=[("self", DUR)], ret=U64, has_self=True, impure=False, body="self.secs"),
    ("Duration", "subsec_nanos"): dict(
        mod="core_time", params=[("self", DUR)], ret=U32, has_self=True, impure=False, body="self.nanos"),
}


class ConstItem(FnItem):
    """a `const NAME: T = e;` whose initialiser is not a plain constant expression (it calls a `const fn`): read as
    a function without parameters with body `e` (compile-time evaluation has the semantics of the run-time one;
    a panic there would be a compile error)"""

    def __init__(self, mod, owner, name, ty, e, rel):
        FnItem.__init__(self, mod, owner, None, name, [], 0, False, rel)
        self.parsed = ([], False, ty, N("block", stmts=[], tail=e))
        self.idents = set()
        self.is_const = True

    def rust_path(self):
        return (self.owner + "::" if self.owner else "") + self.name + " (const)"


class Crate:
    """items of the scanned source files"""

    def __init__(self):
        self.fns = {}       # (owner|None, trait|None, name) -> [FnItem]
        self.consts = {}    # (mod, owner|None, name) -> (type, expr node, rel)
        self.adts = {}      # name -> dict(kind=…, mod=…)
        self.files = {}
        self.gadts = {}     # generic struct: name -> dict(tparams=[…], fields=[(name, type)], mod=…)
        self.gfns = {}      # (base type name, trait|None, fn name) -> [FnItem] of impls with a generic header
        self.assoc = {}     # (impl type, associated type name) -> type   (`type Offset = Utc;` in an impl)
        self.impls = []     # (trait, type) of every non-generic `impl Trait for Type`
        self.traits = set() # names of the traits declared in the translated files
        self.decls = {}     # (trait, fn name) -> [FnItem] of the bodiless method declarations of a trait
        self.std_duration = set()   # (module, Name) for a top-level `use core::time::Duration;` / `use core::cmp::Ordering;`
        self.assoc3 = {}            # (impl type, trait, associated type name) -> type
        self.assoc_g = {}           # (base of a generic impl, trait, associated type name) -> [(impl header, type)]

    def scan_file(self, rel, mod, src):
        toks = lex(src)
        self.files[rel] = mod
        self.scan_items(Parser(toks), rel, mod, None, None, top=True)

    @staticmethod
    def generic_params(p):
        """at `<`: skips the generic parameter list and returns the names of its TYPE parameters (lifetimes and
        const parameters are not type parameters; bounds are skipped: rustc has checked them)"""
        j = p.i
        p.skip_generics()
        names, depth, paren, want = [], 0, 0, False
        for x in p.t[j:p.i]:
            if x.k == "p" and x.v in "([{":
                paren += 1
            elif x.k == "p" and x.v in ")]}":
                paren -= 1
            elif paren:
                continue
            elif x.k == "p" and x.v == "<":
                depth += 1
                want = depth == 1
            elif x.k == "p" and x.v in (">", ">>"):
                depth -= len(x.v)
            elif x.k == "p" and x.v == "," and depth == 1:
                want = True
            elif want:
                if x.k == "id" and x.v != "const":
                    names.append(x.v)
                want = False
        return names

    @staticmethod
    def impl_header(toks, tparams):
        """the header `[Trait for] Type` of an impl with generics in it -> dict(base, args, tname, targs, tparams)
        or None when it is not of the form `Name<types…>` / `Name`"""
        q = Parser(list(toks) + [Tok("eof", "", 0)], 0, tparams)

        def named(t):
            if t[0] == "adt":
                return t[1], ()
            if t[0] == "gen":
                return t[1], t[2]
            return None
        try:
            if q.at("!"):
                return None
            t1 = q.parse_type()
            tr_ = None
            if q.eat("for"):
                tr_, t1 = t1, q.parse_type()
            if not (q.peek().k == "eof" or q.at("where")):
                return None
        except Refuse:
            return None
        a, b = named(t1), (named(tr_) if tr_ is not None else (None, ()))
        if a is None or b is None:
            return None
        return dict(base=a[0], args=a[1], tname=b[0], targs=b[1], tparams=list(tparams))

    def scan_items(self, p, rel, mod, owner, trait, top=False, gimpl=None, targs=()):
        while True:
            x = p.peek()
            if x.k == "eof":
                return
            if p.at("}"):
                if top:
                    raise Refuse(f"{rel}: unbalanced `}}`")
                p.i += 1
                return
            cfg = False
            while p.at("#"):
                p.i += 1
                p.eat("!")
                j = p.i
                p.skip_balanced()
                txt = " ".join(str(t.v) for t in p.t[j:p.i])
                if re.match(r"\[ cfg \(", txt) or re.match(r"\[ cfg_attr \( test", txt):
                    cfg = True
            if p.eat("pub"):
                if p.at("("):
                    p.skip_balanced()
            quals = []
            while (p.at("const") and (p.at("fn", 1) or p.at("unsafe", 1) or p.at("extern", 1))) or p.at("unsafe") \
                    or p.at("async") or p.at("default") or (p.at("extern") and p.peek(1).k == "str"):
                quals.append(p.peek().v)
                p.i += 1
                if quals[-1] == "extern":
                    p.i += 1
            if p.at("fn"):
                p.i += 1
                name = p.ident()
                generic = False
                fparams = []
                if p.at("<"):
                    generic = True
                    fparams = self.generic_params(p)
                item = FnItem(mod, owner, trait, name, p.t, p.i, generic, rel)
                item.gparams = fparams
                item.gimpl = gimpl
                item.targs = targs
                while not (p.at("{") or p.at(";")):
                    if p.peek().k == "eof":
                        raise Refuse(f"{rel}: fn {name}: no body")
                    if p.at("(") or p.at("["):
                        p.skip_balanced()
                    else:
                        p.i += 1
                if p.at("{"):
                    p.skip_balanced()
                    if not cfg and "async" not in quals:
                        self.fns.setdefault((owner, trait, name), []).append(item)
                        if gimpl is not None:
                            self.gfns.setdefault((gimpl["base"], gimpl["tname"], name), []).append(item)
                else:
                    if not cfg and owner is None and trait is not None:
                        self.decls.setdefault((trait, name), []).append(item)
                    p.i += 1
                continue
            if (p.at("const") or p.at("static")) and p.peek(1).k == "id":
                p.i += 1
                p.eat("mut")
                name = p.ident()
                try:
                    p.expect(":")
                    ty = p.parse_type()
                    p.expect("=")
                    save = p.i
                    e = None
                    try:
                        e = p.parse_expr()
                        if not p.at(";"):
                            e = None
                    except Refuse:
                        e = None
                    if e is None:
                        p.i = save
                    if not cfg:
                        self.consts[(mod, owner, name)] = (ty, e, rel)
                except Refuse:
                    pass
                while not p.at(";"):
                    if p.peek().k == "eof":
                        return
                    if p.peek().k == "p" and p.peek().v in "([{":
                        p.skip_balanced()
                    else:
                        p.i += 1
                p.i += 1
                continue
            if p.at("struct"):
                p.i += 1
                name = p.ident()
                generic = False
                gparams = []
                if p.at("<"):
                    generic = True
                    gparams = self.generic_params(p)
                    p.tparams = set(gparams)
                    while not (p.at("{") or p.at("(") or p.at(";") or p.peek().k == "eof"):
                        p.i += 1          # a `where` clause
                info = None
                if p.at("("):
                    j = p.i
                    try:
                        p.i += 1
                        fts = []
                        while not p.at(")"):
                            while p.at("#"):
                                p.i += 1
                                p.skip_balanced()
                            if p.eat("pub") and p.at("("):
                                p.skip_balanced()
                            fts.append(p.parse_type())
                            if not p.eat(","):
                                break
                        p.expect(")")
                        if len(fts) == 1:
                            info = dict(kind="newtype", field=fts[0])
                        else:
                            info = dict(kind="tstruct", fields=fts)
                    except Refuse as ex:
                        info = dict(kind="opaque", why=str(ex))
                        p.i = j
                        p.skip_balanced()
                    while not p.at(";"):
                        p.i += 1
                    p.i += 1
                elif p.at("{"):
                    j = p.i
                    try:
                        p.i += 1
                        fs = []
                        while not p.at("}"):
                            while p.at("#"):
                                p.i += 1
                                p.skip_balanced()
                            if p.eat("pub") and p.at("("):
                                p.skip_balanced()
                            fname = p.ident()
                            p.expect(":")
                            fs.append((fname, p.parse_type()))
                            if not p.eat(","):
                                break
                        p.expect("}")
                        info = dict(kind="struct", fields=fs)
                    except Refuse as ex:
                        info = dict(kind="opaque", why=str(ex))
                        p.i = j
                        p.skip_balanced()
                else:
                    while not p.at(";"):
                        p.i += 1
                    p.i += 1
                    info = dict(kind="unit")
                p.tparams = set()
                if generic:
                    if info["kind"] == "struct" and not cfg:
                        self.gadts[name] = dict(tparams=gparams, fields=info["fields"], mod=mod)
                    info = dict(kind="opaque", why="generic struct")
                if not cfg:
                    info["mod"] = mod
                    self.adts[name] = info
                continue
            if p.at("enum"):
                p.i += 1
                name = p.ident()
                info = None
                if p.at("<"):
                    p.skip_generics()
                    info = dict(kind="opaque", why="generic enum")
                j = p.i
                try:
                    p.expect("{")
                    vs, nxt = [], 0
                    while not p.at("}"):
                        while p.at("#"):
                            p.i += 1
                            p.skip_balanced()
                        vname = p.ident()
                        if p.at("(") or p.at("{"):
                            raise Refuse("enum variant with data")
                        if p.eat("="):
                            neg = p.eat("-")
                            if p.peek().k != "num":
                                raise Refuse("enum discriminant expression")
                            nxt = -p.peek().v if neg else p.peek().v
                            p.i += 1
                        vs.append((vname, nxt))
                        nxt += 1
                        if not p.eat(","):
                            break
                    p.expect("}")
                    info = info or dict(kind="enum", variants=vs)
                except Refuse as ex:
                    info = dict(kind="opaque", why=str(ex))
                    p.i = j
                    p.skip_balanced()
                if not cfg:
                    info["mod"] = mod
                    self.adts[name] = info
                continue
            if p.at("impl") or p.at("trait"):
                is_trait = p.at("trait")
                p.i += 1
                iparams = []
                if p.at("<"):
                    iparams = self.generic_params(p)
                j = p.i
                while not p.at("{"):
                    if p.peek().k == "eof":
                        return
                    if p.at("<"):
                        p.skip_generics()
                    elif p.at("(") or p.at("["):
                        p.skip_balanced()
                    else:
                        p.i += 1
                hdr = p.t[j:p.i]
                words = [t.v for t in hdr]
                if "where" in words:
                    words = words[:words.index("where")]
                own, trt, generic_hdr = None, None, any(t.k == "p" and t.v == "<" for t in hdr)
                if is_trait:
                    trt = words[0] if words else None
                    if trt and not cfg:
                        self.traits.add(trt)
                elif "for" in words:
                    k = words.index("for")
                    lhs = [w for w in words[:k] if isinstance(w, str) and re.match(r"[A-Za-z_]\w*$", w)]
                    rhs = [w for w in words[k + 1:] if isinstance(w, str) and re.match(r"[A-Za-z_]\w*$", w)]
                    trt = lhs[-1] if lhs and not generic_hdr else None
                    own = rhs[-1] if rhs and not generic_hdr else None
                    if trt is None or own is None:
                        own, trt = "<generic impl>", "<generic impl>"
                else:
                    ids = [w for w in words if isinstance(w, str) and re.match(r"[A-Za-z_]\w*$", w)]
                    own = ids[-1] if ids and not generic_hdr else "<generic impl>"
                gi = None
                itargs = ()
                if not is_trait and generic_hdr:
                    gi = self.impl_header(hdr, iparams)
                    if gi is not None and not gi["tparams"] and not gi["args"] and gi["tname"] and gi["base"] != "Self":
                        # `impl Mul<i32> for TimeDelta`: only the trait has arguments; filed like `impl Neg for …`
                        # with the arguments kept on the items (two such impls of one trait give two candidates for
                        # a name: a call by name is refused, a target / an operator names the argument)
                        own, trt, itargs, gi = gi["base"], gi["tname"], tuple(gi["targs"]), None
                if not is_trait and not generic_hdr and not cfg and own and trt:
                    self.impls.append((trt, own))
                p.i += 1
                if cfg:
                    p.i -= 1
                    p.skip_balanced()
                else:
                    self.scan_items(p, rel, mod, own, trt, gimpl=gi, targs=itargs)
                continue
            if p.at("type") and p.peek(1).k == "id" and p.at("=", 2) and owner and not owner.startswith("<") \
                    and not cfg:
                save = p.i
                p.i += 3
                try:
                    ty = p.parse_type()
                    if p.at(";"):
                        if (owner, p.t[save + 1].v) in self.assoc and self.assoc[(owner, p.t[save + 1].v)] != ty:
                            self.assoc[(owner, p.t[save + 1].v)] = ("ambiguous",)
                        else:
                            self.assoc[(owner, p.t[save + 1].v)] = ty
                        self.assoc3[(owner, trait, p.t[save + 1].v)] = ty
                except Refuse:
                    pass
                p.i = save          # skipped below like any other item
            if p.at("use") and owner is None and not cfg:
                j = p.i
                while not (p.at(";") or p.peek().k == "eof"):
                    p.i += 1
                w = [t.v for t in p.t[j + 1:p.i]]
                if len(w) == 5 and w[0] in ("core", "std") and w[1] == w[3] == "::" \
                        and (w[2], w[4]) in (("time", "Duration"), ("cmp", "Ordering")):
                    self.std_duration.add((mod, w[4]))
                p.i = j             # skipped below like any other item
            if p.at("type") and p.peek(1).k == "id" and p.at("=", 2) and gimpl is not None and gimpl["tname"] and not cfg:
                save = p.i
                p.i += 3
                try:
                    q = Parser(p.t, p.i, gimpl["tparams"])
                    ty = q.parse_type()
                    if q.at(";"):
                        self.assoc_g.setdefault((gimpl["base"], gimpl["tname"], p.t[save + 1].v), []).append((gimpl, ty))
                except Refuse:
                    pass
                p.i = save          # skipped below like any other item
            if p.at("mod"):
                p.i += 1
                name = p.ident()
                if p.eat(";"):
                    continue
                if cfg or name == "tests":
                    p.skip_balanced()
                else:
                    p.i += 1
                    self.scan_items(p, rel, mod + "_" + name, None, None)
                continue
            # anything else: skip to `;` or over one `{…}` group
            while True:
                y = p.peek()
                if y.k == "eof":
                    return
                if y.k == "p" and y.v == ";":
                    p.i += 1
                    break
                if y.k == "p" and y.v == "{":
                    p.skip_balanced()
                    p.eat(";")
                    break
                if y.k == "p" and y.v in "([":
                    p.skip_balanced()
                    continue
                if y.k == "p" and y.v == "}":
                    break
                p.i += 1


# ------------------------------------------------------------------------------------------------ types
NEVER = ("never",)
UNIT = ("unit",)
BOOL = ("bool",)
# tables that tools/extract.py already translates (Extracted/Tables.lean); indexing them is translated
EXTRACTED_TABLES = {"YEAR_TO_FLAGS", "MDL_TO_OL", "OL_TO_MDL", "YEAR_DELTAS"}
INT_METHODS = {"checked_add", "checked_sub", "checked_mul", "div_euclid", "rem_euclid", "abs", "get"}


class Types:
    """type variables (only for unsuffixed integer literals) + unification"""

    def __init__(self):
        self.tv = {}
        self.n = 0

    def fresh(self):
        self.n += 1
        return ("tv", self.n)

    def res(self, t):
        while t is not None and t[0] == "tv" and t in self.tv:
            t = self.tv[t]
        if t is None:
            return None
        if t[0] == "opt":
            return ("opt", self.res(t[1]))
        if t[0] == "res":
            return ("res", self.res(t[1]), self.res(t[2]))
        if t[0] == "tuple":
            return ("tuple", tuple(self.res(x) for x in t[1]))
        if t[0] == "array":
            return ("array", self.res(t[1]), t[2])
        return t

    def final(self, t):
        """after inference: unresolved integer variables default to i32 (Rust's rule)"""
        t = self.res(t)
        if t is None:
            return None
        if t[0] == "tv":
            return ("int", "i32")
        if t[0] == "opt":
            return ("opt", self.final(t[1]))
        if t[0] == "res":
            return ("res", self.final(t[1]), self.final(t[2]))
        if t[0] == "tuple":
            return ("tuple", tuple(self.final(x) for x in t[1]))
        if t[0] == "array":
            return ("array", self.final(t[1]), t[2])
        return t

    def unify(self, a, b, what=""):
        a, b = self.res(a), self.res(b)
        if a is None:
            return b
        if b is None:
            return a
        if a == NEVER:
            return b
        if b == NEVER:
            return a
        if a == b:
            return a
        if a[0] == "tv":
            if b[0] not in ("int", "tv"):
                raise Refuse(f"type mismatch: integer literal used as {show_type(b)} {what}")
            self.tv[a] = b
            return b
        if b[0] == "tv":
            return self.unify(b, a, what)
        if a[0] == "opt" and b[0] == "opt":
            return ("opt", self.unify(a[1], b[1], what))
        if a[0] == "res" and b[0] == "res":
            return ("res", self.unify(a[1], b[1], what), self.unify(a[2], b[2], what))
        if a[0] == "tuple" and b[0] == "tuple" and len(a[1]) == len(b[1]):
            return ("tuple", tuple(self.unify(x, y, what) for x, y in zip(a[1], b[1])))
        if a[0] == "array" and b[0] == "array":
            return ("array", self.unify(a[1], b[1], what), a[2] if a[2] is not None else b[2])
        raise Refuse(f"type mismatch: {show_type(a)} vs {show_type(b)} {what}")


def show_type(t):
    if t is None:
        return "?"
    if t[0] == "int":
        return t[1]
    if t[0] == "adt":
        return t[1]
    if t[0] == "opt":
        return "Option<" + show_type(t[1]) + ">"
    if t[0] == "res":
        return "Result<" + show_type(t[1]) + ", " + show_type(t[2]) + ">"
    if t[0] == "tuple":
        return "(" + ", ".join(show_type(x) for x in t[1]) + ")"
    if t[0] == "array":
        return "[" + show_type(t[1]) + "]"
    if t[0] == "tv":
        return "{integer}"
    if t[0] == "gen":
        return t[3]
    return t[0] if len(t) == 1 else t[0] + ":" + str(t[1])


# ------------------------------------------------------------------------------------------------ per-function front end
class FnFront:
    """name resolution + type inference for one function body (annotates the AST)"""

    def __init__(self, gen, item):
        self.gen, self.crate, self.item = gen, gen.crate, item
        self.T = Types()
        self.lconsts = {}          # local `const` items: name -> (type, value)
        self.ret = None

    # -- type helpers
    def norm(self, t):
        """resolve `Self`, references, arrays-by-reference; reject what is outside the subset"""
        if t[0] in ("tparam", "assoc", "gen"):
            t = self.gen.subst_type(t, self.item.tsubst, self.item.owner, self.item.trait)
        if t[0] == "self":
            if not self.item.owner or self.item.owner.startswith("<"):
                raise Refuse("`Self` without a concrete impl type")
            return ("adt", self.item.owner)
        if t[0] == "mutref":
            raise Refuse("`&mut` type")
        if t[0] == "opt":
            return ("opt", self.norm(t[1]))
        if t[0] == "res":
            return ("res", self.norm(t[1]), self.norm(t[2]))
        if t[0] == "tuple":
            return ("tuple", tuple(self.norm(x) for x in t[1]))
        if t[0] == "array":
            return ("array", self.norm(t[1]), None)
        if t[0] == "adt":
            a = self.crate.adts.get(t[1])
            if a is not None and a.get("builtin") and (self.item.mod, t[1]) not in self.crate.std_duration:
                raise Refuse(f"type `{t[1]}` is not the std type of that name in this file (no such `use`)")
            if a is None:
                raise Refuse(f"type `{t[1]}` is not defined in the translated files")
            if a["kind"] in ("opaque", "tstruct"):
                raise Refuse(f"type `{t[1]}`: {a.get('why', 'multi-field tuple struct')}")
        return t

    def adt(self, t):
        return self.crate.adts[t[1]]

    def field_type(self, t, name):
        t = self.T.res(t)
        if t is None or t[0] == "tv":
            raise Refuse("field access on a value of unknown type")
        if t[0] == "tuple":
            if not name.isdigit() or int(name) >= len(t[1]):
                raise Refuse("tuple field")
            return t[1][int(name)]
        if t[0] != "adt":
            raise Refuse(f"field `.{name}` of {show_type(t)}")
        a = self.adt(t)
        if a.get("builtin"):
            raise Refuse(f"field `.{name}` of the std type {t[1]} (private)")
        if a["kind"] == "newtype":
            if name != "0":
                raise Refuse(f"field `.{name}` of tuple struct {t[1]}")
            return self.norm(a["field"])
        if a["kind"] == "struct":
            for fn_, ft in a["fields"]:
                if fn_ == name:
                    return self.norm(ft)
        raise Refuse(f"no field `{name}` in {t[1]}")

    def generic_by_expectation(self, base, exp, what):
        """`DateTime { … }` / `DateTime::f(…)` without type arguments: the instantiation is the one of the expected
        type (the declared result / `let` type the expression flows into; the caller unifies the result with that
        type afterwards, so a wrong guess is a refusal, never a different reading)"""
        x = self.T.res(exp)
        if x is not None and x[0] == "adt" and self.crate.adts.get(x[1], {}).get("gbase") == base:
            return x[1]
        raise Refuse(f"{what} of the generic type `{base}` where the instantiation is not given by the expected type")

    # -- constants
    def find_const(self, segs):
        """-> (type, value) of a constant path, or None"""
        name = segs[-1]
        if len(segs) == 1 and name in self.lconsts:
            return self.lconsts[name]
        if len(segs) == 2 and segs[0] in INT_TYPES and name in ("MAX", "MIN"):
            lo, hi = int_range(segs[0])
            return (("int", segs[0]), hi if name == "MAX" else lo)
        if len(segs) == 2 and segs[0] in INT_TYPES and name == "BITS":
            return (("int", "u32"), INT_TYPES[segs[0]][0])
        owner = None
        if len(segs) >= 2:
            owner = self.item.owner if segs[-2] == "Self" else segs[-2]
            if owner in self.crate.adts and self.crate.adts[owner]["kind"] == "enum":
                return None
        return self.gen.const_lookup(self.item.mod, owner, name, self)

    def const_item(self, segs):
        """the constant `segs` as a parameterless function (see ConstItem), or None"""
        owner = None
        if len(segs) >= 2:
            owner = self.item.owner if segs[-2] == "Self" else segs[-2]
        d = self.gen.const_decl(self.item.mod, segs[-1], owner)
        if d is None or d[1] is None:
            return None
        ty, e, rel, dmod, downer = d
        key = ("constitem", dmod, downer, segs[-1])
        if key not in self.gen.cache:
            self.gen.cache[key] = ConstItem(dmod, downer, segs[-1], ty, e, rel)
        return self.gen.cache[key]

    # -- inference
    def infer_fn(self):
        params, has_self, ret, body = self.item.parse()
        env = {}
        self.params = []
        if has_self:
            if not self.item.owner or self.item.owner.startswith("<"):
                raise Refuse("method of a generic impl")
            st = self.gen.self_type(self.item)
            env["self"] = self.norm(st)
            self.params.append(("self", env["self"]))
        for pat, ty in params:
            ty = self.norm(ty)
            if pat.k == "pbind":
                if pat.mut:
                    pass
                env[pat.name] = ty
                self.params.append((pat.name, ty))
            elif pat.k == "ptstruct" and len(pat.pats) == 1 and pat.pats[0].k == "pbind" and ty[0] == "adt" \
                    and self.adt(ty)["kind"] == "newtype" and pat.path[-1] == ty[1]:
                inner = pat.pats[0].name
                env[inner] = self.norm(self.adt(ty)["field"])
                self.params.append((inner, ty))          # same representation as the wrapped field
            else:
                raise Refuse("parameter pattern outside the subset")
        self.ret = self.norm(ret)
        bt = self.infer(body, env, self.ret)
        self.T.unify(bt, self.ret, "(function result)")
        return body

    def infer(self, e, env, exp=None):
        t = self._infer(e, env, exp)
        if exp is not None and t is not None:
            rt, re_ = self.T.res(t), self.T.res(exp)
            if rt is not None and rt[0] == "tv" and re_ is not None and re_[0] in ("int", "tv"):
                t = self.T.unify(t, exp)
            elif rt is not None and rt[0] in ("opt", "res") and re_ is not None and re_[0] == rt[0]:
                try:
                    t = self.T.unify(t, exp)
                except Refuse:
                    pass
        e.ty = t
        return t

    def int_like(self, t, what):
        r = self.T.res(t)
        if r is None or r[0] not in ("int", "tv"):
            raise Refuse(f"{what} on a value of type {show_type(r)}")

    def _infer(self, e, env, exp):
        T = self.T
        k = e.k
        if k == "lit":
            return ("int", e.suf) if e.suf else T.fresh()
        if k == "bool":
            return BOOL
        if k == "str":
            return ("str",)
        if k == "paren":
            return self.infer(e.e, env, exp)
        if k == "path":
            segs = e.segs
            if len(segs) == 1 and segs[0] in env:
                e.res = ("var",)
                return env[segs[0]]
            if segs == ["None"]:
                e.res = ("none",)
                x = T.res(exp)
                return x if x is not None and x[0] == "opt" else ("opt", None)
            if len(segs) >= 2:
                en = self.item.owner if segs[-2] == "Self" else segs[-2]
                a = self.crate.adts.get(en)
                if a and a["kind"] == "enum":
                    for vn, d in a["variants"]:
                        if vn == segs[-1]:
                            e.res = ("variant", d)
                            return self.norm(("adt", en)) if a.get("builtin") else ("adt", en)
                    raise Refuse(f"unknown variant {en}::{segs[-1]}")
            if len(segs) == 1 and self.crate.adts.get(segs[0], {}).get("kind") == "unit":
                e.res = ("unit",)
                return ("adt", segs[0])
            if len(segs) == 1:
                ca = self.gen.const_array(self.item.mod, segs[0])
                if ca is not None:
                    e.res = ("carray", ca[1])
                    return ("array", ca[0], len(ca[1]))
            if segs[-1] in EXTRACTED_TABLES and len(segs) == 1:
                c = self.gen.const_decl(self.item.mod, segs[-1])
                if c is not None:
                    e.res = ("table", segs[-1])
                    return self.norm(c[0])
            try:
                c = self.find_const(segs)
            except Refuse as ex:
                item = self.const_item(segs)
                if item is None:
                    raise ex
                info = self.gen.fn_info(item)
                e.res = ("constfn", info)
                return info.ret
            if c is not None:
                e.res = ("const", c[1], "::".join(segs))
                return c[0]
            raise Refuse(f"unresolved name `{'::'.join(segs)}`")
        if k == "un":
            if e.op == "-":
                t = self.infer(e.e, env, exp)
                self.int_like(t, "unary `-`")
                return t
            t = self.infer(e.e, env, exp)       # `!`
            r = T.res(t)
            if r == BOOL:
                return BOOL
            self.int_like(t, "`!`")
            return t
        if k == "bin":
            op = e.op
            if op in ("&&", "||"):
                T.unify(self.infer(e.l, env, BOOL), BOOL, f"(`{op}`)")
                T.unify(self.infer(e.r, env, BOOL), BOOL, f"(`{op}`)")
                return BOOL
            if op in ("==", "!=", "<", ">", "<=", ">="):
                tl = self.infer(e.l, env)
                tr_ = self.infer(e.r, env, tl)
                t = T.unify(tl, tr_, f"(`{op}`)")
                r = T.res(t)
                if r is not None and r[0] not in ("int", "tv", "bool") and not (
                        r[0] == "adt" and self.adt(r)["kind"] == "enum" and op in ("==", "!=")):
                    raise Refuse(f"comparison `{op}` on {show_type(r)}")
                if r == BOOL and op not in ("==", "!="):
                    raise Refuse("ordering comparison on bool")
                return BOOL
            if op in ("<<", ">>"):
                tl = self.infer(e.l, env, exp)
                self.int_like(tl, f"`{op}`")
                tr_ = self.infer(e.r, env)
                self.int_like(tr_, f"`{op}` amount")
                return tl
            tl = self.infer(e.l, env, exp)
            rl = T.res(tl)
            if op in ("+", "-") and rl is not None and rl[0] == "adt":
                # `a + b` on a struct: the `add` of the one `impl Add<type of b> for type of a`
                rr = T.final(self.infer(e.r, env))
                item = self.gen.resolve_op(rl[1], "Add" if op == "+" else "Sub", "add" if op == "+" else "sub", rr)
                info = self.gen.fn_info(item)
                if len(info.params) != 2 or info.mut_self:
                    raise Refuse(f"operator `{op}`: unexpected signature of {item.rust_path()}")
                T.unify(rl, info.params[0][1], f"(`{op}`)")
                T.unify(rr, info.params[1][1], f"(`{op}`)")
                e.res = ("opfn", info)
                return info.ret
            tr_ = self.infer(e.r, env, tl if T.res(tl) is not None and T.res(tl)[0] != "tv" else exp)
            t = T.unify(tl, tr_, f"(`{op}`)")
            r = T.res(t)
            if r == BOOL and op in ("&", "|", "^"):
                raise Refuse(f"non-short-circuit `{op}` on bool")
            self.int_like(t, f"`{op}`")
            return t
        if k == "cast":
            self.infer(e.e, env)
            to = self.norm(e.to)
            if to[0] != "int":
                raise Refuse(f"cast to {show_type(to)}")
            return to
        if k == "tuple":
            x = T.res(exp)
            exps = x[1] if x is not None and x[0] == "tuple" and len(x[1]) == len(e.es) else [None] * len(e.es)
            if not e.es:
                return UNIT
            return ("tuple", tuple(self.infer(a, env, b) for a, b in zip(e.es, exps)))
        if k == "array":
            x = T.res(exp)
            et = x[1] if x is not None and x[0] == "array" else None
            for a in e.es:
                et = T.unify(et, self.infer(a, env, et), "(array element)")
            return ("array", et, len(e.es))
        if k == "index":
            tb = self.infer(e.e, env)
            r = T.res(tb)
            if r is None or r[0] != "array":
                raise Refuse(f"indexing a value of type {show_type(r)}")
            T.unify(self.infer(e.i, env, ("int", "usize")), ("int", "usize"), "(index)")
            return r[1]
        if k == "field":
            return self.field_type(self.infer(e.e, env), e.name)
        if k == "slit":
            name = self.item.owner if e.path[-1] == "Self" else e.path[-1]
            if name in self.crate.gadts:
                name = self.generic_by_expectation(name, exp, "struct literal")
            t = self.norm(("adt", name))
            a = self.adt(t)
            if a["kind"] != "struct" or a.get("builtin"):
                raise Refuse(f"struct literal of {name}")
            want = [f for f, _ in a["fields"]]
            given = [f for f, _ in e.fields]
            if e.base is not None:
                if len(set(given)) != len(given) or not set(given) <= set(want):
                    raise Refuse(f"struct literal of {name}: unknown or repeated field")
                T.unify(self.infer(e.base, env, t), t, "(struct update base)")
            elif sorted(want) != sorted(given):
                raise Refuse(f"struct literal of {name}: field set differs from the declaration")
            for fname, fe in e.fields:
                ft = self.field_type(t, fname)
                T.unify(self.infer(fe, env, ft), ft, f"(field {fname})")
            return t
        if k == "block":
            return self.infer_block(e, dict(env), exp)
        if k == "if":
            env2 = dict(env)
            if e.c.k == "letcond":
                ts = self.infer(e.c.e, env)
                self.bind_pat(e.c.pat, ts, env2)
            else:
                T.unify(self.infer(e.c, env, BOOL), BOOL, "(if condition)")
            tt = self.infer(e.t, env2, exp)
            if e.f is None:
                T.unify(tt, UNIT, "(if without else)")
                return UNIT
            tf = self.infer(e.f, env, exp if exp is not None else tt)
            return T.unify(tt, tf, "(if branches)")
        if k == "match":
            ts = self.infer(e.e, env)
            t = exp
            out = NEVER
            for pat, guard, body in e.arms:
                if guard is not None:
                    raise Refuse("match guard")
                env2 = dict(env)
                self.bind_pat(pat, ts, env2)
                tb = self.infer(body, env2, t)
                out = T.unify(out, tb, "(match arms)")
                if t is None and T.res(out) != NEVER:
                    t = out
            return out
        if k == "return":
            if e.e is None:
                T.unify(self.ret, UNIT, "(return)")
            else:
                T.unify(self.infer(e.e, env, self.ret), self.ret, "(return)")
            return NEVER
        if k == "try":
            t = T.res(self.infer(e.e, env))
            if t is not None and t[0] == "res":
                # `e?` on a Result: only when the error type of the function IS the error type of `e` (the `From`
                # conversion `?` applies is then the identity of `impl<T> From<T> for T`)
                rt = T.res(self.ret)
                if rt[0] != "res":
                    raise Refuse("`?` on a Result in a function that does not return Result")
                if T.res(t[2]) is None or T.res(rt[2]) is None or T.res(t[2]) != T.res(rt[2]):
                    raise Refuse("`?` that converts the error type (`From`)")
                e.on_res = True
                return t[1]
            if t is None or t[0] != "opt":
                raise Refuse("`?` on a value that is neither an Option nor a Result")
            if T.res(self.ret)[0] != "opt":
                raise Refuse("`?` in a function that does not return Option")
            return t[1]
        if k == "macro":
            if e.name == "try_opt" and len(e.args) == 1:
                t = T.res(self.infer(e.args[0], env))
                if t is None or t[0] != "opt":
                    raise Refuse("try_opt! on a non-Option value")
                if T.res(self.ret)[0] != "opt":
                    raise Refuse("try_opt! in a function that does not return Option")
                return t[1]
            if e.name in ("debug_assert", "assert") and len(e.args) >= 1:
                T.unify(self.infer(e.args[0], env, BOOL), BOOL, "(assertion)")
                return UNIT
            if e.name in ("debug_assert_eq", "assert_eq", "debug_assert_ne", "assert_ne") and len(e.args) >= 2:
                tl = self.infer(e.args[0], env)
                T.unify(tl, self.infer(e.args[1], env, tl), "(assertion)")
                return UNIT
            if e.name in ("panic", "unreachable", "unimplemented", "todo"):
                return NEVER
            raise Refuse(f"macro `{e.name}!`")
        if k == "call":
            return self.infer_call(e, env, exp)
        if k == "mcall":
            return self.infer_mcall(e, env, exp)
        if k == "assign":
            raise Refuse("assignment in expression position")
        raise Refuse(f"expression kind `{k}`")

    def infer_block(self, b, env, exp):
        T = self.T
        diverged = False
        for s in b.stmts:
            if s.k == "let":
                dt = self.norm(s.dty) if s.dty is not None else None
                t = self.infer(s.init, env, dt)
                if dt is not None:
                    t = T.unify(t, dt, "(let)")
                self.bind_pat(s.pat, t, env)
            elif s.k == "lconst":
                dt = self.norm(s.dty)
                v = self.gen.ceval(s.e, self.item.mod, self.item.owner, self, dt)
                self.gen.check_const(v, dt, s.name)
                self.lconsts[s.name] = (dt, v)
            elif s.k == "use":
                # importing a name that is nothing of the translated files (an external trait such as
                # `num_traits::FromPrimitive`) cannot change what a path of this body refers to here
                nm = s.name
                if nm in self.crate.adts or nm in self.crate.gadts or any(k_[2] == nm for k_ in self.crate.consts) \
                        or any(k_[2] == nm and k_[0] is None and k_[1] is None for k_ in self.crate.fns) or nm in env:
                    raise Refuse(f"`use …::{nm}` inside a function body shadows a translated item")
            elif s.k == "estmt":
                t = self.infer(s.e, env)
                if T.res(t) == NEVER:
                    diverged = True
            elif s.k == "assign":
                if s.lhs.k != "path" or len(s.lhs.segs) != 1 or s.lhs.segs[0] not in env:
                    raise Refuse("assignment to something other than a local variable")
                tv = env[s.lhs.segs[0]]
                s.lhs.ty = tv
                op = s.op[:-1]
                if op in ("<<", ">>"):
                    self.int_like(self.infer(s.rhs, env), "shift amount")
                else:
                    T.unify(tv, self.infer(s.rhs, env, tv), f"(`{s.op}`)")
                if op:
                    self.int_like(tv, f"`{s.op}`")
        if b.tail is not None:
            return self.infer(b.tail, env, exp)
        return NEVER if diverged else UNIT

    def bind_pat(self, p, t, env):
        """check pattern `p` against scrutinee type `t`, add its bindings to env"""
        T = self.T
        p.ty = t
        k = p.k
        if k == "pwild":
            return
        if k == "pbind":
            env[p.name] = t
            return
        if k == "plit":
            T.unify(t, self.infer(p.e, env, t), "(literal pattern)")
            return
        if k == "prange":
            T.unify(t, self.infer(p.lo, env, t), "(range pattern)")
            T.unify(t, self.infer(p.hi, env, t), "(range pattern)")
            return
        if k == "pbool":
            T.unify(t, BOOL, "(bool pattern)")
            return
        if k == "ppath":
            pe = N("path", segs=p.segs)
            T.unify(t, self.infer(pe, {}, t), "(path pattern)")
            p.e = pe
            return
        if k == "ptuple":
            r = T.res(t)
            if r is None or r[0] != "tuple" or len(r[1]) != len(p.pats):
                raise Refuse("tuple pattern against a non-tuple")
            for q, qt in zip(p.pats, r[1]):
                self.bind_pat(q, qt, env)
            return
        if k == "ptstruct":
            r = T.res(t)
            if p.path == ["Some"] and len(p.pats) == 1:
                if r is None or r[0] != "opt":
                    raise Refuse("`Some(_)` pattern against a non-Option")
                self.bind_pat(p.pats[0], r[1], env)
                return
            if p.path in (["Ok"], ["Err"]) and len(p.pats) == 1:
                if r is None or r[0] != "res":
                    raise Refuse(f"`{p.path[0]}(_)` pattern against a non-Result")
                self.bind_pat(p.pats[0], r[1] if p.path == ["Ok"] else r[2], env)
                return
            if r is not None and r[0] == "adt" and self.adt(r)["kind"] == "newtype" and p.path[-1] in (r[1], "Self") \
                    and len(p.pats) == 1:
                self.bind_pat(p.pats[0], self.norm(self.adt(r)["field"]), env)
                return
            raise Refuse(f"pattern `{'::'.join(p.path)}(…)`")
        if k == "por":
            for q in p.pats:
                if q.k not in ("plit", "prange", "ppath", "pbool"):
                    raise Refuse("or-pattern with bindings")
                self.bind_pat(q, t, env)
            return
        raise Refuse(f"pattern kind {k}")

    def infer_call(self, e, env, exp):
        T = self.T
        segs = e.path
        name = segs[-1]
        if segs == ["Some"] and len(e.args) == 1:
            x = T.res(exp)
            t = self.infer(e.args[0], env, x[1] if x is not None and x[0] == "opt" else None)
            e.res = ("some",)
            return ("opt", t)
        if name in ("Ok", "Err") and len(segs) == 1 and len(e.args) == 1:
            x = T.res(exp)
            x = x if x is not None and x[0] == "res" else ("res", None, None)
            if name == "Ok":
                t = self.infer(e.args[0], env, x[1])
                e.res = ("ok",)
                return ("res", T.unify(t, x[1], "(Ok)") if x[1] is not None else t, x[2])
            t = self.infer(e.args[0], env, x[2])
            e.res = ("err",)
            return ("res", x[1], T.unify(t, x[2], "(Err)") if x[2] is not None else t)
        if name == "expect" and len(e.args) == 2 and len(segs) <= 2 and segs[0] in ("expect", "crate"):
            t = T.res(self.infer(e.args[0], env, ("opt", exp) if exp is not None else None))
            if t is None or t[0] != "opt":
                raise Refuse("expect(…) on a non-Option value")
            e.res = ("expect",)
            return t[1]
        if len(segs) == 2 and segs[0] in INT_TYPES and name == "from" and len(e.args) == 1:
            self.infer(e.args[0], env)
            e.res = ("conv", segs[0])
            return ("int", segs[0])
        if len(segs) == 2 and segs[0] in NONZERO and name == "new_unchecked" and len(e.args) == 1:
            t = ("int", NONZERO[segs[0]])
            T.unify(self.infer(e.args[0], env, t), t, "(NonZero)")
            e.res = ("ident",)
            return t
        tn = self.item.owner if name == "Self" else name
        a = self.crate.adts.get(tn)
        if a is not None and len(segs) == 1:
            if a["kind"] != "newtype" or len(e.args) != 1:
                raise Refuse(f"constructor call {tn}(…)")
            ft = self.norm(a["field"])
            T.unify(self.infer(e.args[0], env, ft), ft, f"({tn}(…))")
            e.res = ("ident",)
            return self.norm(("adt", tn))
        if len(segs) == 1:
            item = self.gen.resolve_fn(None, name, self.item)
            if item.generic and item.gparams and item.owner is None:
                item = self.instantiate_generic_fn(item, e, env)
        else:
            owner = self.item.owner if segs[-2] == "Self" else segs[-2]
            if owner in INT_TYPES or owner in NONZERO:
                raise Refuse(f"`{owner}::{name}` is outside the subset")
            if owner in self.crate.traits and owner not in self.crate.adts:
                return self.infer_trait_call(e, env, exp, owner, name)
            if owner in self.item.tsubst:                      # `Tz::from_offset(…)` read at the instantiation
                if self.item.tsubst[owner][0] != "adt":
                    raise Refuse(f"`{owner}::{name}` on a type parameter bound to a non-struct type")
                owner = self.item.tsubst[owner][1]
                item = self.gen.resolve_fn(owner, name, self.item, via_param=True)
            else:
                if owner in self.crate.gadts:
                    owner = self.generic_by_expectation(owner, exp, f"call `{owner}::{name}`")
                item = self.gen.resolve_fn(owner, name, self.item)
        info = self.gen.fn_info(item)
        if len(info.params) != len(e.args):
            raise Refuse(f"call of {item.rust_path()}: argument count")
        for (pn, pt), a_ in zip(info.params, e.args):
            T.unify(self.infer(a_, env, pt), pt, f"(argument `{pn}` of {item.rust_path()})")
        e.res = ("fn", info)
        return info.ret

    def instantiate_generic_fn(self, item, e, env):
        """a call `f(args)` of a free function with type parameters of its own (`fn f<T>(naive: NaiveDateTime,
        original: T, …)`): each parameter must be the declared type of at least one argument position (`x: T`) and
        is bound to the type of that argument — a named type; the function is then read at that instantiation
        (bounds and `where` clauses are not evaluated: rustc has checked them for this call)."""
        probe = FnItem(item.mod, None, None, item.name, item.toks, item.sig_i, False, item.rel)
        probe.tsubst = dict.fromkeys(item.gparams)
        params, has_self, _ret = probe.parse_sig()
        if has_self or len(params) != len(e.args):
            raise Refuse(f"call of the generic function {item.name}: argument count")
        bind = {}
        for (pat, pt), a_ in zip(params, e.args):
            if pt[0] == "tparam":
                at = self.T.final(self.infer(a_, env))
                if at is None or at[0] != "adt":
                    raise Refuse(f"generic function {item.name}: type parameter `{pt[1]}` bound to a non-struct type")
                if bind.get(pt[1], at) != at:
                    raise Refuse(f"generic function {item.name}: type parameter `{pt[1]}` bound to two types")
                bind[pt[1]] = at
        if set(item.gparams) - set(bind):
            raise Refuse(f"generic function {item.name}: a type parameter is not the type of an argument")
        key = ("ginst", id(item), tuple(sorted((k_, v[1]) for k_, v in bind.items())))
        if key not in self.gen.cache:
            ni = FnItem(item.mod, None, None, item.name, item.toks, item.sig_i, False, item.rel)
            ni.tsubst = bind
            ni.ginst = "_".join(lean_ident(bind[g][1]) for g in item.gparams)
            self.gen.cache[key] = ni
        return self.gen.cache[key]

    def infer_trait_call(self, e, env, exp, trait, name):
        """`Trait::f(args)`: the impl is chosen by `Self`, which is read off the first argument when `f` has a
        receiver and off the expected type when `f` returns `Self` (`TimeZone::from_offset(&off)` flowing into a
        value of type `Tz`); anything else is refused"""
        T = self.T
        decl = self.crate.fns.get((None, trait, name), []) + self.crate.decls.get((trait, name), [])
        if len(decl) != 1:
            raise Refuse(f"`{trait}::{name}`: no unique declaration in the trait")
        d = FnItem(decl[0].mod, None, trait, name, decl[0].toks, decl[0].sig_i, decl[0].generic, decl[0].rel)
        params, has_self, ret = d.parse_sig()
        selft = None
        if has_self:
            if not e.args:
                raise Refuse(f"`{trait}::{name}` without a receiver argument")
            selft = T.res(self.infer(e.args[0], env))
        elif ret == ("self",):
            selft = T.res(exp)
        if selft is None or selft[0] != "adt":
            raise Refuse(f"`{trait}::{name}`: the implementing type is not evident from the call")
        item = self.gen.resolve_fn(selft[1], name, self.item, via_param=True)
        if item.trait != trait:
            raise Refuse(f"`{trait}::{name}` at {selft[1]} resolves to a function that is not the trait's")
        info = self.gen.fn_info(item)
        if len(info.params) != len(e.args):
            raise Refuse(f"call of {item.rust_path()}: argument count")
        if info.mut_self:
            raise Refuse(f"call of {item.rust_path()}, which takes `&mut self`")
        for (pn, pt), a_ in zip(info.params, e.args):
            T.unify(self.infer(a_, env, pt), pt, f"(argument `{pn}` of {item.rust_path()})")
        e.res = ("fn", info)
        return info.ret

    def infer_mcall(self, e, env, exp):
        T = self.T
        tr_ = T.res(self.infer(e.recv, env))
        name = e.name
        if tr_ is None:
            raise Refuse(f"method `{name}` on a value of unknown type")
        if name == "clone" and not e.args:
            e.res = ("ident",)
            return tr_
        if tr_[0] in ("int", "tv"):
            if name in ("checked_add", "checked_sub", "checked_mul") and len(e.args) == 1:
                t = T.unify(tr_, self.infer(e.args[0], env, tr_), f"({name})")
                e.res = ("checked", name[8:])
                e.opty = t
                return ("opt", t)
            if name in ("div_euclid", "rem_euclid") and len(e.args) == 1:
                t = T.unify(tr_, self.infer(e.args[0], env, tr_), f"({name})")
                e.res = ("euclid", name[:3])
                return t
            if name == "cmp" and len(e.args) == 1:
                T.unify(tr_, self.infer(e.args[0], env, tr_), "(cmp)")
                e.res = ("cmp",)
                return self.norm(("adt", "Ordering"))
            if name == "abs" and not e.args:
                e.res = ("abs",)
                return tr_
            if name == "get" and not e.args:       # NonZero*::get
                e.res = ("ident",)
                return tr_
            raise Refuse(f"integer method `{name}` is outside the subset")
        if tr_[0] == "opt":
            if name in ("map", "and_then") and len(e.args) == 1 and e.args[0].k == "closure":
                c = e.args[0]
                if len(c.params) != 1:
                    raise Refuse(f"Option::{name} with a closure that does not take one argument")
                if has_escape(c.body):
                    raise Refuse("`return` / `?` inside a closure")
                # exactly the definition of Option::map / Option::and_then, with the closure body in place of the call
                some = N("call", path=["Some"], args=[c.body]) if name == "map" else c.body
                inner = N("ptstruct", path=["Some"], pats=[c.params[0]])
                e.k, e.e = "match", e.recv
                e.arms = [(inner, None, some), (N("ppath", segs=["None"]), None, N("path", segs=["None"]))]
                return self._infer(e, env, exp)
            if name in ("is_some", "is_none") and not e.args:
                e.res = ("isopt", name == "is_some")
                return BOOL
            if name == "unwrap" and not e.args:
                e.res = ("unwrap",)
                return tr_[1]
            if name == "expect" and len(e.args) == 1 and e.args[0].k == "str":
                e.res = ("unwrap",)
                return tr_[1]
            if name == "ok_or" and len(e.args) == 1:
                x = T.res(exp)
                te = self.infer(e.args[0], env, x[2] if x is not None and x[0] == "res" else None)
                e.res = ("ok_or",)
                return ("res", tr_[1], te)
            if name == "unwrap_or" and len(e.args) == 1:
                t = T.unify(tr_[1], self.infer(e.args[0], env, tr_[1]), "(unwrap_or)")
                e.res = ("unwrap_or",)
                return t
            raise Refuse(f"Option method `{name}` is outside the subset")
        if tr_[0] == "res":
            if name in ("is_ok", "is_err") and not e.args:
                e.res = ("isres", name == "is_ok")
                return BOOL
            if (name == "unwrap" and not e.args) or (name == "expect" and len(e.args) == 1 and e.args[0].k == "str"):
                e.res = ("unwrap_res",)
                return tr_[1]
            if name == "ok" and not e.args:
                e.res = ("res_ok",)
                return ("opt", tr_[1])
            raise Refuse(f"Result method `{name}` is outside the subset")
        if tr_[0] == "adt":
            item = self.gen.resolve_fn(tr_[1], name, self.item, method=True)
            info = self.gen.fn_info(item)
            if not info.has_self:
                raise Refuse(f"{item.rust_path()} called as a method but has no self")
            if info.mut_self:
                raise Refuse(f"call of {item.rust_path()}, which takes `&mut self`")
            if len(info.params) != len(e.args) + 1:
                raise Refuse(f"call of {item.rust_path()}: argument count")
            for (pn, pt), a_ in zip(info.params[1:], e.args):
                T.unify(self.infer(a_, env, pt), pt, f"(argument `{pn}` of {item.rust_path()})")
            e.res = ("fn", info)
            return info.ret
        raise Refuse(f"method `{name}` on {show_type(tr_)}")


# ------------------------------------------------------------------------------------------------ Lean output
LEAN_RESERVED = {
    "at", "from", "end", "then", "do", "fun", "open", "show", "have", "by", "in", "with", "def", "theorem",
    "instance", "namespace", "section", "variable", "where", "deriving", "extends", "match", "if", "else", "let",
    "some", "none", "decide", "true", "false", "Int", "Nat", "Res", "Option", "Bool", "Type", "Prop", "Sort",
    "structure", "inductive", "class", "import", "export", "private", "protected", "mutual", "macro", "syntax",
    "notation", "infix", "prefix", "postfix", "set_option", "attribute", "universe", "example", "axiom", "using",
    "calc", "forall", "exists", "return", "for", "unless", "try", "catch", "finally", "mut", "abbrev", "opaque",
    "nomatch", "nofun", "suffices", "obtain", "local", "scoped", "partial", "unsafe", "noncomputable", "id",
}


def ind(s):
    return "\n".join("  " + ln if ln else ln for ln in s.split("\n"))


def lit_text(n):
    return str(n) if n >= 0 else f"({n})"


class V:
    """a pure Lean term.  prec: 100 atom, 90 application, 70 `* / %`, 65 `+ -`, 50 comparison, 35 ∧, 30 ∨, 0 other.
    cval: the compile-time value if the term is a constant (int / bool / dict for a struct constant).
    prop: for bool-typed terms, whether `text` is a Prop (else a Bool term).  parts: components of a literal tuple."""

    def __init__(self, text, prec=100, cval=None, prop=False, parts=None):
        self.text, self.prec, self.cval, self.prop, self.parts = text, prec, cval, prop, parts

    def emb(self, minprec):
        return self.text if self.prec >= minprec else "(" + self.text + ")"


def vlit(n):
    return V(lit_text(n), 100, cval=n)


def vbool(b):
    return V("true" if b else "false", 100, cval=bool(b))


HOLE = "\0HOLE\0"


def has_escape(e):
    """does the expression contain `return`, `?` or try_opt! (a jump out of the enclosing function)?"""
    if isinstance(e, N):
        if e.k in ("return", "try") or (e.k == "macro" and e.name == "try_opt"):
            return True
        return any(has_escape(v) for kk, v in e.__dict__.items() if kk not in ("ty", "res"))
    if isinstance(e, (list, tuple)):
        return any(has_escape(x) for x in e)
    return False


class FnTrans:
    """CPS translation of one type-annotated function body into a Lean term"""

    def __init__(self, gen, front, body, pure):
        self.gen, self.front, self.crate, self.body = gen, front, gen.crate, body
        self.T = front.T
        self.pure = pure            # second pass: the function was found to have no panicking operation
        self.impure = False         # set when a panicking operation is emitted
        self.cnt = 0
        self.depth = 0
        self.used = front.idents

    # -- small helpers
    def ty(self, e):
        return self.T.final(e.ty)

    def fresh(self, base="r"):
        while True:
            self.cnt += 1
            n = f"{base}{self.cnt}"
            if n not in self.used:
                return n

    def panic(self):
        if self.pure:
            raise Refuse("internal: panic in a function classified as pure")
        self.impure = True
        return ".panic"

    def bind(self, rhs, name, body):
        if self.pure:
            raise Refuse("internal: bind in a function classified as pure")
        self.impure = True
        if body == f".ok {name}":
            return rhs
        return f"Res.bind ({rhs}) fun {name} =>\n{body}"

    def ite(self, c, a, b):
        if "\n" not in a and "\n" not in b and not b.startswith("if ") and len(c) + len(a) + len(b) < 90:
            return f"if {c} then {a} else {b}"
        if "\n" not in a and len(c) + len(a) < 100:
            if b.startswith("if ") or "\n" not in b:
                return f"if {c} then {a}\nelse {b}"
            return f"if {c} then {a}\nelse\n{b}"
        return f"if {c} then\n{ind(a)}\nelse\n{ind(b)}"

    def as_prop(self, v):
        if v.cval is not None:
            return "True" if v.cval else "False"
        return v.text if v.prop else f"{v.emb(51)} = true"

    def as_bool(self, v):
        if v.cval is not None or not v.prop:
            return v
        return V(f"decide ({v.text})", 90)

    def val(self, v, t):
        """a value about to be stored / passed / returned: bools become Bool terms"""
        return self.as_bool(v) if t == BOOL else v

    def ret(self, v):
        v = self.val(v, self.T.final(self.front.ret))
        return v.text if self.pure else f".ok {v.emb(100)}"

    def kret(self):
        k = lambda v: self.ret(v)
        k.is_ret = True
        return k

    def ret_none(self):
        return "none" if self.pure else ".ok none"

    def lean_type(self, t):
        return qualify(self.gen.lean_type(t), self.used, self.gen.mods)

    def mk(self, name):
        return qualify(self.gen.struct_name(name), self.used, self.gen.mods) + ".mk"

    def is_struct(self, t):
        return t is not None and t[0] == "adt" and self.gen.repr_kind(t) == "struct"

    # -- scopes
    def declare(self, name, env):
        """Lean name for a new binding of Rust variable `name` -> (lean name, new env)"""
        lean = name + "_" if name in LEAN_RESERVED else name
        if name in env and env[name][1] < self.depth:
            base = lean
            i = 1
            while f"{base}_{i}" in self.used or any(f"{base}_{i}" == x[0] for x in env.values()):
                i += 1
            lean = f"{base}_{i}"
        env = dict(env)
        env[name] = (lean, self.depth)
        return lean, env

    def try_pure(self, e, env):
        save = (self.cnt, self.impure)
        got = []

        def k(v):
            got.append(v)
            return HOLE
        code = self.tr(e, env, k)
        if code == HOLE and len(got) == 1:
            return got[0]
        self.cnt, self.impure = save
        return None

    # -- the function
    def run(self):
        env = {}
        self.depth = 1                  # parameters live in the scope of the body block
        for pn, pt in self.front.params:
            lean, env = self.declare(pn, env)
        self.param_names = [env[pn][0] for pn, _ in self.front.params]
        self.depth = 0
        return self.tr(self.body, env, self.kret())

    # -- checked arithmetic
    def ck(self, t, text, cval, k, hint=None, prec=0):
        lo, hi = int_range(t[1])
        if cval is not None:
            if not lo <= cval <= hi:
                raise Refuse(f"constant expression overflows {t[1]}")
            return k(vlit(cval))
        name = hint or self.fresh()
        return self.bind(f"{self.gen.ck_name(t[1])} ({text})", name, k(V(name)))

    def res_bind(self, rhs, k, hint=None):
        name = hint or self.fresh()
        return self.bind(rhs, name, k(V(name)))

    def mask_and(self, a, m, tn):
        """`a & m` for a compile-time mask m, written arithmetically (exact for every a of the type)"""
        w, signed = INT_TYPES[tn]
        allones = -1 if signed else (1 << w) - 1
        if m == 0:
            return vlit(0)
        if m == allones:
            return a

        def pos(m):
            terms, j = [], 0
            while m >> j:
                if (m >> j) & 1:
                    ln = 0
                    while (m >> (j + ln)) & 1:
                        ln += 1
                    if j == 0:
                        terms.append(f"{a.emb(71)} % {1 << ln}")
                    else:
                        terms.append(f"{a.emb(71)} / {1 << j} % {1 << ln} * {1 << j}")
                    j += ln
                else:
                    j += 1
            return terms
        if m < 0 or (not signed and m >= 1 << (w - 1)):
            comp = (-1 - m) if signed else ((1 << w) - 1 - m)
            terms = pos(comp)
            return V(a.emb(65) + "".join(f" - ({t})" if len(terms) > 1 else f" - {t}" for t in terms), 65)
        terms = pos(m)
        return V(" + ".join(terms), 70 if len(terms) == 1 else 65)

    def binop(self, op, a, b, t, k, hint, bt=None):
        """integer `a op b` in machine type t; a, b are V"""
        tn = t[1]
        w, signed = INT_TYPES[tn]
        lo, hi = int_range(tn)
        ca, cb = a.cval, b.cval
        both = ca is not None and cb is not None
        asf = self.gen.as_name(tn)
        if op in ("+", "-", "*"):
            cv = None
            if both:
                cv = ca + cb if op == "+" else ca - cb if op == "-" else ca * cb
            p = 70 if op == "*" else 65
            return self.ck(t, f"{a.emb(p)} {op} {b.emb(p + 1)}", cv, k, hint)
        if op in ("/", "%"):
            if cb is not None:
                if cb == 0:
                    raise Refuse("division by the constant zero")
                if both and not (signed and cb == -1):
                    q = abs(ca) // abs(cb)
                    q = q if (ca >= 0) == (cb >= 0) else -q
                    return k(vlit(q if op == "/" else ca - cb * q))
                if not (signed and cb == -1):
                    if signed:
                        return k(V(f"Int.{'tdiv' if op == '/' else 'tmod'} {a.emb(100)} {b.emb(100)}", 90))
                    return k(V(f"{a.emb(70)} {op} {b.emb(71)}", 70))
            if op == "/":
                f = f"GenRt.{'tdivCk' if signed else 'edivCk'} {lit_text(lo)} {lit_text(hi)}"
            else:
                f = f"GenRt.{'tmodCk' if signed else 'emodCk'} {lit_text(lo)}"
            return self.res_bind(f"{f} {a.emb(100)} {b.emb(100)}", k, hint)
        if op in ("<<", ">>"):
            if cb is not None:
                if not 0 <= cb < w:
                    raise Refuse("constant shift amount is not below the width of the type")
                if op == ">>":
                    if ca is not None:
                        return k(vlit(ca >> cb))
                    return k(a if cb == 0 else V(f"{a.emb(70)} / {1 << cb}", 70))
                if ca is not None:
                    return k(vlit(wrap_int(ca << cb, tn)))
                if signed:
                    return k(V(f"{asf} ({a.emb(70)} * {1 << cb})", 90))
                return k(V(f"{a.emb(70)} * {1 << cb} % {1 << w}", 70))
            if op == ">>":
                return self.res_bind(f"GenRt.shrCk {w} {a.emb(100)} {b.emb(100)}", k, hint)
            return self.res_bind(f"GenRt.shlCk {w} {asf} {a.emb(100)} {b.emb(100)}", k, hint)
        if op in ("&", "|", "^"):
            if both:
                ua, ub = ca & ((1 << w) - 1), cb & ((1 << w) - 1)
                r = ua & ub if op == "&" else ua | ub if op == "|" else ua ^ ub
                return k(vlit(wrap_int(r, tn)))
            if op == "&" and (ca is not None or cb is not None):
                return k(self.mask_and(b if ca is not None else a, ca if ca is not None else cb, tn))
            if op in ("|", "^") and (ca == 0 or cb == 0):
                return k(b if ca == 0 else a)
            nm = {"&": "land", "|": "lor", "^": "lxor"}[op]
            if signed:
                return k(V(f"GenRt.{nm}I {w} {asf} {a.emb(100)} {b.emb(100)}", 90))
            return k(V(f"GenRt.{nm}U {a.emb(100)} {b.emb(100)}", 90))
        raise Refuse(f"operator `{op}`")

    def cast(self, v, src, dst):
        """`v as dst` (dst an integer type)"""
        dn = dst[1]
        dlo, dhi = int_range(dn)
        if src == BOOL:
            if v.cval is not None:
                return vlit(1 if v.cval else 0)
            return V(f"if {self.as_prop(v)} then 1 else 0", 0)
        if src[0] == "adt":
            a = self.crate.adts[src[1]]
            if a["kind"] != "enum":
                raise Refuse(f"cast of {src[1]} to an integer")
            ds = [d for _, d in a["variants"]]
            slo, shi = min(ds), max(ds)
        elif src[0] == "int":
            slo, shi = int_range(src[1])
        else:
            raise Refuse(f"cast from {show_type(src)}")
        if v.cval is not None:
            return vlit(wrap_int(v.cval, dn))
        if dlo <= slo and shi <= dhi:
            return v
        return V(f"{self.gen.as_name(dn)} {v.emb(100)}", 90)

    # -- expressions
    def tr_list(self, es, env, k, acc=None):
        acc = acc or []
        if not es:
            return k(acc)
        return self.tr(es[0], env, lambda v: self.tr_list(es[1:], env, k, acc + [self.val(v, self.ty(es[0]))]))

    def tr(self, e, env, k, hint=None):
        kd = e.k
        if kd == "paren":
            return self.tr(e.e, env, k, hint)
        if kd == "lit":
            t = self.ty(e)
            lo, hi = int_range(t[1])
            if not lo <= e.v <= hi and not (e.v == hi + 1 and getattr(e, "negated", False)):
                raise Refuse(f"literal {e.v} is out of range for {t[1]}")
            return k(vlit(e.v))
        if kd == "bool":
            return k(vbool(e.v))
        if kd == "str":
            return k(V('""'))
        if kd == "path":
            r = e.res
            if r[0] == "var":
                return k(V(env[e.segs[0]][0]))
            if r[0] == "none":
                return k(V("none"))
            if r[0] == "unit":
                return k(V("()"))
            if r[0] == "carray":
                return k(V("([" + ", ".join(lit_text(x) for x in r[1]) + "] : List Int)", 100))
            if r[0] == "variant":
                return k(vlit(r[1]))
            if r[0] == "const":
                if isinstance(r[1], bool):
                    return k(vbool(r[1]))
                if isinstance(r[1], int):
                    return k(vlit(r[1]))
                if isinstance(r[1], dict):
                    return k(self.const_struct(r[1], self.ty(e)))
                raise Refuse(f"constant `{r[2]}` of a type outside the subset")
            if r[0] == "table":
                raise Refuse(f"table `{r[1]}` used other than by indexing")
            if r[0] == "constfn":
                return self.apply_fn(r[1], [], k, hint)
        if kd == "un":
            t = self.ty(e)
            if e.op == "-":
                if e.e.k == "lit" or (e.e.k == "paren" and e.e.e.k == "lit"):
                    inner = e.e if e.e.k == "lit" else e.e.e
                    inner.negated = True
                    lo, hi = int_range(t[1])
                    if not lo <= -inner.v <= hi:
                        raise Refuse(f"literal -{inner.v} is out of range for {t[1]}")
                    return k(vlit(-inner.v))
                if not INT_TYPES[t[1]][1]:
                    raise Refuse("unary `-` on an unsigned type")
                return self.tr(e.e, env, lambda a: self.ck(t, f"-{a.emb(100)}", -a.cval if a.cval is not None else None, k, hint))
            if t == BOOL:
                def knot(a):
                    if a.cval is not None:
                        return k(vbool(not a.cval))
                    return k(V(f"¬({a.text})", 100, prop=True) if a.prop else V(f"!{a.emb(100)}", 90))
                return self.tr(e.e, env, knot)
            w, signed = INT_TYPES[t[1]]

            def kcompl(a):
                if a.cval is not None:
                    return k(vlit(wrap_int(~a.cval, t[1])))
                if signed:
                    return k(V(f"-1 - {a.emb(66)}", 65))
                return k(V(f"{(1 << w) - 1} - {a.emb(66)}", 65))
            return self.tr(e.e, env, kcompl)
        if kd == "bin":
            op = e.op
            if op in ("&&", "||"):
                def kl(a):
                    b = self.try_pure(e.r, env)
                    if b is None:
                        if a.cval is not None:
                            if (op == "&&") == bool(a.cval):
                                return self.tr(e.r, env, k)
                            return k(vbool(a.cval))
                        short = vbool(op == "||")
                        c = self.as_prop(a)
                        if not getattr(k, "is_ret", False) and not has_escape(e.r):
                            # join point: the bool is computed in Res, the continuation is emitted once
                            inner = self.tr(e.r, env, lambda b_: f".ok {self.as_bool(b_).emb(100)}")
                            both = self.ite(c, inner, ".ok false") if op == "&&" else self.ite(c, ".ok true", inner)
                            return self.res_bind(both.replace("\n", "\n  "), k)
                        if op == "&&":
                            return self.ite(c, self.tr(e.r, env, k), k(short))
                        return self.ite(c, k(short), self.tr(e.r, env, k))
                    if a.cval is not None:
                        return k(b if (op == "&&") == bool(a.cval) else vbool(a.cval))
                    if b.cval is not None:
                        return k(a if (op == "&&") == bool(b.cval) else vbool(b.cval))
                    pa, pb = V(self.as_prop(a), 50 if not a.prop else a.prec, prop=True), V(self.as_prop(b), 50 if not b.prop else b.prec, prop=True)
                    if op == "&&":
                        return k(V(f"{pa.emb(35)} ∧ {pb.emb(35)}", 35, prop=True))
                    return k(V(f"{pa.emb(30)} ∨ {pb.emb(30)}", 30, prop=True))
                return self.tr(e.l, env, kl)
            if op in ("==", "!=", "<", ">", "<=", ">="):
                lop = {"==": "=", "!=": "≠", "<": "<", ">": ">", "<=": "≤", ">=": "≥"}[op]
                ot = self.ty(e.l)

                def kc(a):
                    def kc2(b):
                        if a.cval is not None and b.cval is not None and not isinstance(a.cval, dict):
                            x, y = a.cval, b.cval
                            return k(vbool({"==": x == y, "!=": x != y, "<": x < y, ">": x > y, "<=": x <= y, ">=": x >= y}[op]))
                        aa, bb = (self.as_bool(a), self.as_bool(b)) if ot == BOOL else (a, b)
                        return k(V(f"{aa.emb(51)} {lop} {bb.emb(51)}", 50, prop=True))
                    return self.tr(e.r, env, kc2)
                return self.tr(e.l, env, kc)
            if getattr(e, "res", None) is not None and e.res[0] == "opfn":
                return self.tr_list([e.l, e.r], env, lambda vs: self.apply_fn(e.res[1], vs, k, hint))
            t = self.ty(e)
            return self.tr(e.l, env, lambda a: self.tr(e.r, env, lambda b: self.binop(op, a, b, t, k, hint)))
        if kd == "cast":
            src, dst = self.ty(e.e), self.ty(e)
            return self.tr(e.e, env, lambda v: k(self.cast(v, src, dst)))
        if kd == "tuple":
            if not e.es:
                return k(V("()"))
            return self.tr_list(e.es, env, lambda vs: k(V("(" + ", ".join(v.text for v in vs) + ")", 100, parts=vs)))
        if kd == "array":
            et = self.lean_type(self.ty(e)[1])
            return self.tr_list(e.es, env, lambda vs: k(V(f"([{', '.join(v.text for v in vs)}] : List {et})", 100)))
        if kd == "index":
            base = e.e.e if e.e.k == "paren" else e.e
            et = self.ty(e)
            if base.k == "path" and getattr(base, "res", ("",))[0] == "table":
                tbl = "Extracted." + base.res[1]
                return self.tr(e.i, env, lambda i: self.res_bind(f"GenRt.idxN {tbl} {i.emb(100)}", k, hint))
            if et is None or et[0] != "int":
                raise Refuse("indexing an array whose elements are not integers")
            return self.tr(base, env, lambda b: self.tr(e.i, env, lambda i: self.res_bind(
                f"GenRt.idxL {b.emb(100)} {i.emb(100)}", k, hint)))
        if kd == "field":
            bt = self.ty(e.e)

            def kf(v):
                if isinstance(v.cval, dict):
                    x = v.cval[e.name]
                    return k(vlit(x) if isinstance(x, int) else self.const_struct(x, self.ty(e)))
                if bt[0] == "tuple":
                    if v.parts:
                        return k(v.parts[int(e.name)])
                    return k(V(self.proj(v, int(e.name), len(bt[1])), 100))
                if self.is_struct(bt):
                    return k(V(f"{v.emb(100)}.{e.name}", 100))
                return k(v)          # newtype / single-field struct: same representation
            return self.tr(e.e, env, kf)
        if kd == "slit":
            t = self.ty(e)
            a = self.crate.adts[t[1]]
            order = [f for f, _ in a["fields"]]

            def ks(vs):
                by = {f: v for (f, _), v in zip(e.fields, vs)}
                if e.base is not None:
                    # `T { f: e, ..base }`: the fields not listed are copied from `base`, which is evaluated last
                    b = vs[-1]
                    if len(order) == 1:
                        return k(by.get(order[0], b))
                    for f in order:
                        if f not in by:
                            by[f] = V(lit_text(b.cval[f]), 100, cval=b.cval[f]) if isinstance(b.cval, dict) \
                                else V(f"{b.emb(100)}.{f}", 100)
                elif len(order) == 1:
                    return k(vs[0])
                return k(V(f"{self.mk(t[1])} " + " ".join(by[f].emb(100) for f in order), 90))
            return self.tr_list([fe for _, fe in e.fields] + ([e.base] if e.base is not None else []), env, ks)
        if kd == "block":
            return self.tr_block(e, env, k, hint)
        if kd == "if":
            return self.tr_if(e, env, k)
        if kd == "match":
            return self.tr_match(e, env, k)
        if kd == "return":
            if e.e is None:
                raise Refuse("`return;` in a function without a result")
            return self.tr(e.e, env, self.kret())
        if kd in ("try", "macro") and (kd == "try" or e.name == "try_opt"):
            inner = e.e if kd == "try" else e.args[0]
            if kd == "try" and getattr(e, "on_res", False):
                # `e?` on a Result whose error type is the function's: `Err(x)` is returned as it is
                return self.tr(inner, env, lambda v: self.match_res(
                    v, hint, k, None, lambda x: self.ret(V(f"GenRt.Result.err {x.emb(100)}", 90))))
            return self.tr(inner, env, lambda v: self.match_opt(v, hint, k, self.ret_none()))
        if kd == "macro":
            if e.name in ("panic", "unreachable", "unimplemented", "todo"):
                return self.panic()
            if e.name in ("debug_assert", "assert"):
                def ka(c):
                    if c.cval is not None:
                        return k(V("()")) if c.cval else self.panic()
                    p = c.text if c.prop else f"{c.emb(51)} = true"
                    return f"if ¬({p}) then {self.panic()}\nelse\n{k(V('()'))}"
                return self.tr(e.args[0], env, ka)
            op = "=" if e.name.endswith("_eq") else "≠"
            return self.tr(e.args[0], env, lambda a: self.tr(e.args[1], env, lambda b:
                           f"if ¬({a.emb(51)} {op} {b.emb(51)}) then {self.panic()}\nelse\n{k(V('()'))}"))
        if kd == "call":
            return self.tr_call(e, env, k, hint)
        if kd == "mcall":
            return self.tr_mcall(e, env, k, hint)
        raise Refuse(f"expression kind `{kd}`")

    def unwrap_or(self, v, d, t, k):
        if getattr(v, "inner", None) is not None:
            return k(v.inner)
        if v.text == "none":
            return k(d)
        if t[0] == "int" or self.lean_type(t) == "Int":
            return k(V(f"{v.emb(100)}.getD {d.emb(100)}", 90))
        raise Refuse("unwrap_or on a non-integer Option")

    def proj(self, v, i, n):
        s = v.emb(100)
        if n == 2:
            return f"{s}.{i + 1}"
        return s + ".2" * i + (".1" if i < n - 1 else "")

    def const_struct(self, d, t):
        a = self.crate.adts[t[1]]
        if a["kind"] == "newtype" or len(a["fields"]) == 1:
            x = d["0"] if "0" in d else list(d.values())[0]
            return vlit(x)
        parts = []
        for f, ft in a["fields"]:
            x = d[f]
            parts.append(lit_text(x) if isinstance(x, int) else
                         self.const_struct(x, self.gen.norm_type(ft, t[1])).emb(100))
        return V(f"{self.mk(t[1])} " + " ".join(parts), 90, cval=d)

    def match_opt(self, v, name, ksome, none_code):
        return self.match_opt_full(v, name, ksome, none_code)

    def tr_call(self, e, env, k, hint):
        r = e.res
        if r[0] == "some":
            t = self.ty(e.args[0])

            def ks(v):
                v = self.val(v, t)
                out = V(f"some {v.emb(100)}", 90)
                out.inner = v
                return k(out)
            return self.tr(e.args[0], env, ks)
        if r[0] in ("ok", "err"):
            t = self.ty(e.args[0])

            def kr(v):
                v = self.val(v, t)
                out = V(f"GenRt.Result.{r[0]} {v.emb(100)}", 90)
                out.rinner = (r[0], v)
                return k(out)
            return self.tr(e.args[0], env, kr)
        if r[0] == "expect":
            return self.tr(e.args[0], env, lambda v: self.match_opt(v, hint, k, self.panic()))
        if r[0] == "ident":
            return self.tr(e.args[0], env, k, hint)
        if r[0] == "conv":
            src, dst = self.ty(e.args[0]), ("int", r[1])
            if src[0] != "int":
                raise Refuse(f"{r[1]}::from on {show_type(src)}")
            (slo, shi), (dlo, dhi) = int_range(src[1]), int_range(r[1])
            if not (dlo <= slo and shi <= dhi):
                raise Refuse(f"{r[1]}::from({src[1]}) is not a lossless conversion")
            return self.tr(e.args[0], env, k, hint)
        if r[0] == "fn":
            return self.tr_list(e.args, env, lambda vs: self.apply_fn(r[1], vs, k, hint))
        raise Refuse("call form")

    def apply_fn(self, info, vs, k, hint):
        name = info.lean
        if name.split(".")[0] in self.used:      # a local variable is called like the module: write the full name
            name = "Chrono.Gen." + name
        text = name + "".join(" " + v.emb(100) for v in vs)
        if info.impure:
            return self.res_bind(text, k, hint)
        return k(V(text, 90 if vs else 100))

    def tr_mcall(self, e, env, k, hint):
        r = e.res
        if r[0] == "ident":
            return self.tr(e.recv, env, k, hint)
        if r[0] == "fn":
            return self.tr_list([e.recv] + e.args, env, lambda vs: self.apply_fn(r[1], vs, k, hint))
        if r[0] == "checked":
            t = self.T.final(e.opty)
            op = {"add": "+", "sub": "-", "mul": "*"}[r[1]]
            p = 70 if op == "*" else 65

            def kc(a, b):
                if a.cval is not None and b.cval is not None:
                    cv = a.cval + b.cval if op == "+" else a.cval - b.cval if op == "-" else a.cval * b.cval
                    lo, hi = int_range(t[1])
                    if lo <= cv <= hi:
                        out = V(f"some {lit_text(cv)}", 90)
                        out.inner = vlit(cv)
                        return k(out)
                    return k(V("none"))
                return k(V(f"{self.gen.opt_name(t[1])} ({a.emb(p)} {op} {b.emb(p + 1)})", 90))
            return self.tr(e.recv, env, lambda a: self.tr(e.args[0], env, lambda b: kc(a, b)))
        if r[0] == "euclid":
            t = self.ty(e)
            lo, hi = int_range(t[1])
            signed = INT_TYPES[t[1]][1]

            def ke(a, b):
                if b.cval is not None:
                    if b.cval == 0:
                        raise Refuse("division by the constant zero")
                    if not (signed and b.cval == -1):
                        return k(V(f"{a.emb(70)} {'/' if r[1] == 'div' else '%'} {b.emb(71)}", 70))
                if r[1] == "div":
                    return self.res_bind(f"GenRt.edivCk {lit_text(lo)} {lit_text(hi)} {a.emb(100)} {b.emb(100)}", k, hint)
                return self.res_bind(f"GenRt.emodCk {lit_text(lo)} {a.emb(100)} {b.emb(100)}", k, hint)
            return self.tr(e.recv, env, lambda a: self.tr(e.args[0], env, lambda b: ke(a, b)))
        if r[0] == "cmp":
            # `a.cmp(&b)` on integers: `Ordering::Less = -1`, `Equal = 0`, `Greater = 1`
            def kcmp(a, b):
                if a.cval is not None and b.cval is not None:
                    return k(vlit(-1 if a.cval < b.cval else 0 if a.cval == b.cval else 1))
                return k(V(f"if {a.emb(51)} < {b.emb(51)} then -1 else if {a.emb(51)} = {b.emb(51)} then 0 else 1", 0))
            return self.tr(e.recv, env, lambda a: self.tr(e.args[0], env, lambda b: kcmp(a, b)))
        if r[0] == "ok_or":
            # `opt.ok_or(err)`: the error value is evaluated first-come (eagerly, as an argument), then the choice
            t = self.ty(e.args[0])
            return self.tr(e.recv, env, lambda v: self.tr(e.args[0], env, lambda d: k(
                V(f"GenRt.Result.okOr {v.emb(100)} {self.val(d, t).emb(100)}", 90))))
        if r[0] == "abs":
            t = self.ty(e)
            if not INT_TYPES[t[1]][1]:
                raise Refuse("abs on an unsigned type")
            lo, _ = int_range(t[1])
            return self.tr(e.recv, env, lambda a: self.res_bind(f"GenRt.absCk {lit_text(lo)} {a.emb(100)}", k, hint))
        if r[0] == "isopt":
            return self.tr(e.recv, env, lambda v: k(V(f"{v.emb(100)}.{'isSome' if r[1] else 'isNone'}", 100)))
        if r[0] == "unwrap":
            return self.tr(e.recv, env, lambda v: self.match_opt(v, hint, k, self.panic()))
        if r[0] == "unwrap_res":
            return self.tr(e.recv, env, lambda v: self.match_res(v, hint, k, "_", lambda x: self.panic()))
        if r[0] == "isres":
            return self.tr(e.recv, env, lambda v: k(V(f"{v.emb(100)}.{'isOk' if r[1] else 'isErr'}", 100)))
        if r[0] == "res_ok":
            return self.tr(e.recv, env, lambda v: k(V(f"{v.emb(100)}.toOption", 100)))
        if r[0] == "unwrap_or":
            # the default is evaluated (eagerly, as in Rust) after the receiver and before the choice
            t = self.ty(e)
            return self.tr(e.recv, env, lambda v: self.tr(e.args[0], env, lambda d: self.unwrap_or(v, self.val(d, t), t, k)))
        raise Refuse("method call form")

    # -- control flow
    def tr_if(self, e, env, k):
        tail = getattr(k, "is_ret", False)
        if e.c.k == "letcond":
            return self.tr_iflet(e, env, k)

        els = e.f if e.f is not None else N("block", stmts=[], tail=None)
        return self.tr(e.c, env, lambda c: self.tr_cond(c, e.t, els, env, k, e, merge=e.f is not None))

    def tr_cond(self, c, then, els, env, k, e, merge=True):
        tail = getattr(k, "is_ret", False)
        if c.cval is not None:
            return self.tr(then if c.cval else els, env, k)
        cp = self.as_prop(c)
        if not tail and merge:
            a = self.try_pure(then, env)
            b = self.try_pure(els, env) if a is not None else None
            if a is not None and b is not None:
                t = self.ty(e)
                a, b = self.val(a, t), self.val(b, t)
                return k(V(f"if {cp} then {a.text} else {b.text}", 0))
        return self.ite(cp, self.tr(then, env, k), self.tr(els, env, k))

    def tr_iflet(self, e, env, k):
        pat = e.c.pat
        if not (pat.k == "ptstruct" and pat.path == ["Some"] and len(pat.pats) == 1):
            raise Refuse("`if let` with a pattern other than `Some(_)`")
        els = e.f if e.f is not None else N("block", stmts=[], tail=None)
        inner = pat.pats[0]
        it = self.T.final(inner.ty)

        def kv(v):
            self.depth += 1
            try:
                if inner.k == "pbind":
                    lean, env2 = self.declare(inner.name, env)
                    some = lambda x: self.tr(e.t, env2, k) if x.text == lean else \
                        f"let {lean} : {self.lean_type(it)} := {x.text}\n" + self.tr(e.t, env2, k)
                    nm = lean
                else:
                    nm = None
                    some = lambda x: self.bind_pat(inner, x, it, env, lambda env2: self.tr(e.t, env2, k))
                none_code = self.tr(els, env, k)
                return self.match_opt_full(v, nm, some, none_code)
            finally:
                self.depth -= 1
        return self.tr(e.c.e, env, kv)

    def match_opt_full(self, v, name, ksome, none_code):
        if getattr(v, "inner", None) is not None:
            return ksome(v.inner)
        if v.text == "none":
            return none_code
        name = name or self.fresh()
        body = ksome(V(name))
        nb = f"| none => {none_code}" if "\n" not in none_code else f"| none =>\n{ind(none_code)}"
        if "\n" in body:
            return f"(match {v.text} with\n| some {name} =>\n{ind(body)}\n{nb})"
        return f"(match {v.text} with\n| some {name} => {body}\n{nb})"

    def match_res(self, v, ok_name, kok, err_name, kerr):
        """`match v { Ok(x) => kok(x), Err(y) => kerr(y) }` on a Result value"""
        ri = getattr(v, "rinner", None)
        if ri is not None:
            return kok(ri[1]) if ri[0] == "ok" else kerr(ri[1])
        ok_name = ok_name or self.fresh()
        err_name = err_name or self.fresh()
        a, b = kok(V(ok_name)), kerr(V(err_name))
        la = f"| .ok {ok_name} => {a}" if "\n" not in a else f"| .ok {ok_name} =>\n{ind(a)}"
        lb = f"| .err {err_name} => {b}" if "\n" not in b else f"| .err {err_name} =>\n{ind(b)}"
        return f"(match {v.text} with\n{la}\n{lb})"

    def tr_match_res(self, e, env, k):
        ok_arm = err_arm = None
        for pat, _, body in e.arms:
            if pat.k == "ptstruct" and pat.path == ["Ok"] and ok_arm is None:
                ok_arm = (pat.pats[0], body)
            elif pat.k == "ptstruct" and pat.path == ["Err"] and err_arm is None:
                err_arm = (pat.pats[0], body)
            elif pat.k == "pwild":
                ok_arm = ok_arm or (N("pwild"), body)
                err_arm = err_arm or (N("pwild"), body)
            else:
                raise Refuse("Result match with a pattern other than Ok(_) / Err(_) / _")
        if ok_arm is None or err_arm is None:
            raise Refuse("Result match without both cases")
        st = self.ty(e.e)

        def arm(inner, body, it):
            """-> (name for the match binder or None, continuation of the bound value)"""
            if inner.k == "pbind":
                lean, env2 = self.declare(inner.name, env)
                return lean, lambda x: (self.tr(body, env2, k) if x.text == lean else
                                        f"let {lean} : {self.lean_type(it)} := {x.text}\n" + self.tr(body, env2, k))
            if inner.k == "pwild":
                return None, lambda x: self.tr(body, env, k)
            return None, lambda x: self.bind_pat(inner, x, it, env, lambda env2: self.tr(body, env2, k))

        def kv(v):
            self.depth += 1
            try:
                n1, k1 = arm(ok_arm[0], ok_arm[1], st[1])
                n2, k2 = arm(err_arm[0], err_arm[1], st[2])
                return self.match_res(v, n1, k1, n2, k2)
            finally:
                self.depth -= 1
        return self.tr(e.e, env, kv)

    def pat_cond(self, p, s, env):
        """condition (Prop text) under which integer / bool / enum pattern p matches the atom s; None = always"""
        if p.k in ("pwild", "pbind"):
            return None
        if p.k == "plit":
            v = self.try_pure(p.e, env)
            return f"{s.emb(51)} = {v.emb(51)}"
        if p.k == "ppath":
            v = self.try_pure(p.e, env)
            if v is None or v.cval is None or isinstance(v.cval, dict):
                raise Refuse("path pattern that is not an integer constant or enum variant")
            return f"{s.emb(51)} = {v.emb(51)}"
        if p.k == "pbool":
            return f"{s.emb(51)} = {'true' if p.v else 'false'}"
        if p.k == "prange":
            lo, hi = self.try_pure(p.lo, env), self.try_pure(p.hi, env)
            if lo is None or hi is None or lo.cval is None or hi.cval is None:
                raise Refuse("range pattern with non-constant bounds")
            if lo.cval > hi.cval:
                raise Refuse("empty range pattern")
            return f"{lo.emb(51)} ≤ {s.emb(51)} ∧ {s.emb(51)} ≤ {hi.emb(51)}"
        if p.k == "por":
            cs = [self.pat_cond(q, s, env) for q in p.pats]
            return " ∨ ".join(f"({c})" for c in cs)
        raise Refuse(f"pattern kind {p.k} in an integer match")

    def tr_match(self, e, env, k):
        st = self.ty(e.e)
        tail = getattr(k, "is_ret", False)
        if st is None:
            raise Refuse("match on a value of unknown type")
        if st[0] == "opt":
            return self.tr_match_opt(e, env, k)
        if st[0] == "res":
            return self.tr_match_res(e, env, k)
        if st[0] == "tuple":
            raise Refuse("match on a tuple")
        if st[0] == "adt" and self.gen.repr_kind(st) == "struct":
            raise Refuse("match on a struct")

        if st == BOOL:
            bt = bf = None
            for pat, _, body in e.arms:
                if pat.k == "pbool":
                    if pat.v and bt is None:
                        bt = body
                    if not pat.v and bf is None:
                        bf = body
                elif pat.k in ("pwild", "pbind") and pat.k == "pwild":
                    bt = bt or body
                    bf = bf or body
                else:
                    raise Refuse("bool match with a pattern other than true / false / _")
            if bt is None or bf is None:
                raise Refuse("bool match without both cases")
            return self.tr(e.e, env, lambda c: self.tr_cond(c, bt, bf, env, k, e))

        def ks(s):
            pre = ""
            if s.prec < 100 and s.cval is None:
                nm = self.fresh("m")
                pre = f"let {nm} : {self.lean_type(st)} := {s.text}\n"
                s = V(nm)
            self.depth += 1
            try:
                arms = []
                for pat, _, body in e.arms:
                    c = self.pat_cond(pat, s, env)
                    env2 = env
                    let = ""
                    if pat.k == "pbind":
                        lean, env2 = self.declare(pat.name, env)
                        let = f"let {lean} : {self.lean_type(st)} := {s.text}\n"
                    arms.append((c, let, body, env2))
                    if c is None:
                        break
                if not tail and len(arms) > 1:
                    vals = []
                    for c, let, body, env2 in arms:
                        v = self.try_pure(body, env2) if not let else None
                        if v is None:
                            vals = None
                            break
                        vals.append(self.val(v, self.ty(e)))
                    if vals is not None:
                        txt = vals[-1].text
                        for (c, _, _, _), v in zip(reversed(arms[:-1]), reversed(vals[:-1])):
                            txt = f"if {c} then {v.text} else {txt}"
                        return pre + k(V(txt, 0))

                def chain(i):
                    c, let, body, env2 = arms[i]
                    code = let + self.tr(body, env2, k)
                    if i == len(arms) - 1:
                        return code      # last arm: the compiler has checked exhaustiveness
                    return self.ite(c, code, chain(i + 1))
                return pre + chain(0)
            finally:
                self.depth -= 1
        return self.tr(e.e, env, ks)

    def tr_match_opt(self, e, env, k):
        some_arm = none_arm = None
        for pat, _, body in e.arms:
            if pat.k == "ptstruct" and pat.path == ["Some"] and some_arm is None:
                some_arm = (pat.pats[0], body)
            elif pat.k == "ppath" and pat.segs == ["None"] and none_arm is None:
                none_arm = body
            elif pat.k in ("pwild",):
                if some_arm is None:
                    some_arm = (N("pwild"), body)
                if none_arm is None:
                    none_arm = body
            else:
                raise Refuse("Option match with a pattern other than Some(_) / None / _")
        if some_arm is None or none_arm is None:
            raise Refuse("Option match without both cases")
        inner, sbody = some_arm
        it = self.ty(e.e)[1]

        def kv(v):
            self.depth += 1
            try:
                nm = None
                if inner.k == "pbind":
                    lean, env2 = self.declare(inner.name, env)
                    nm = lean
                    some = lambda x: (self.tr(sbody, env2, k) if x.text == lean else
                                      f"let {lean} : {self.lean_type(it)} := {x.text}\n" + self.tr(sbody, env2, k))
                elif inner.k == "pwild":
                    some = lambda x: self.tr(sbody, env, k)
                else:
                    some = lambda x: self.bind_pat(inner, x, it, env, lambda env2: self.tr(sbody, env2, k))
                return self.match_opt_full(v, nm, some, self.tr(none_arm, env, k))
            finally:
                self.depth -= 1
        return self.tr(e.e, env, kv)

    def bind_pat(self, p, v, t, env, kbody):
        """destructure value v of type t with irrefutable pattern p, then kbody(env')"""
        if p.k == "pwild":
            return kbody(env)
        if p.k == "pbind":
            lean, env2 = self.declare(p.name, env)
            if v.text == lean:
                return kbody(env2)
            v = self.val(v, t)
            return f"let {lean} : {self.lean_type(t)} := {v.text}\n" + kbody(env2)
        if p.k == "ptstruct" and p.path != ["Some"] and len(p.pats) == 1:
            return self.bind_pat(p.pats[0], v, self.T.final(p.pats[0].ty) if p.pats[0].ty else t, env, kbody)
        if p.k == "ptuple":
            if t[0] != "tuple":
                raise Refuse("tuple pattern")
            pre = ""
            if not v.parts and v.prec < 100:
                nm = self.fresh("p")
                pre = f"let {nm} : {self.lean_type(t)} := {v.text}\n"
                v = V(nm)

            def go(i, env_):
                if i == len(p.pats):
                    return kbody(env_)
                comp = v.parts[i] if v.parts else V(self.proj(v, i, len(p.pats)))
                return self.bind_pat(p.pats[i], comp, t[1][i], env_, lambda e2: go(i + 1, e2))
            return pre + go(0, env)
        raise Refuse("refutable or unsupported pattern in a binding position")

    def at_depth(self, d, f):
        save = self.depth
        self.depth = d
        try:
            return f()
        finally:
            self.depth = save

    def tr_block(self, b, env, k, hint=None):
        self.depth += 1
        try:
            return self.tr_stmts(b, 0, env, k, hint)
        finally:
            self.depth -= 1

    def tr_stmts(self, b, i, env, k, hint):
        if i == len(b.stmts):
            if b.tail is None:
                return k(V("()"))
            return self.tr(b.tail, env, k, hint)
        s = b.stmts[i]
        depth = self.depth

        def rest(env_):
            save = self.depth
            self.depth = depth
            try:
                return self.tr_stmts(b, i + 1, env_, k, hint)
            finally:
                self.depth = save
        if s.k == "let":
            t = self.ty(s.init)
            h = None
            if s.pat.k == "pbind":
                h = self.declare(s.pat.name, env)[0]
            return self.tr(s.init, env, lambda v: self.at_depth(depth, lambda: self.bind_pat(s.pat, v, t, env, rest)), h)
        if s.k in ("lconst", "use"):
            return rest(env)
        if s.k == "estmt":
            return self.tr(s.e, env, lambda _v: rest(env))
        if s.k == "assign":
            name = s.lhs.segs[0]
            lean = env[name][0]
            t = self.T.final(s.lhs.ty)
            if s.op == "=":
                return self.tr(s.rhs, env, lambda v: (rest(env) if v.text == lean else
                               f"let {lean} : {self.lean_type(t)} := {self.val(v, t).text}\n" + rest(env)), lean)
            op = s.op[:-1]

            def kas(v):
                def kk(r):
                    if r.text == lean:
                        return rest(env)
                    return f"let {lean} : {self.lean_type(t)} := {r.text}\n" + rest(env)
                return self.binop(op, V(lean), v, t, kk, lean)
            return self.tr(s.rhs, env, kas)
        raise Refuse(f"statement kind {s.k}")


# ------------------------------------------------------------------------------------------------ whole run
class FnInfo:
    def __init__(self):
        self.lean = self.text = self.ret = self.params = None
        self.impure = False
        self.has_self = False
        self.mut_self = False


PRIM_CK = {"i32": "ckI32", "i64": "ckI64", "u32": "ckU32", "u64": "ckU64"}
PRIM_OPT = {"i32": "optI32", "i64": "optI64", "u32": "optU32"}
PRIM_AS = {"u8": "asU8", "u32": "asU32", "i32": "asI32", "i64": "asI64"}


class Gen:
    def __init__(self, crate):
        self.crate = crate
        self.infos = {}        # id(item) -> FnInfo | Refuse | "busy"
        self.order = []        # FnInfo in dependency order
        self.structs = []      # names of emitted structures
        self.struct_adt = {}   # emitted structure name -> key in crate.adts
        self.cache = {}
        self.mods = sorted(set(crate.files.values()))

    # -- names of the run-time vocabulary
    def ck_name(self, t):
        return PRIM_CK.get(t) or "GenRt.ck" + t[0].upper() + t[1:]

    def opt_name(self, t):
        if t in PRIM_OPT:
            return PRIM_OPT[t]
        if t in ("u128",):
            raise Refuse("checked_* on u128")
        return "GenRt.opt" + t[0].upper() + t[1:]

    def as_name(self, t):
        return PRIM_AS.get(t) or "GenRt.as" + t[0].upper() + t[1:]

    # -- representation of types
    def repr_kind(self, t):
        a = self.crate.adts[t[1]]
        if a["kind"] == "newtype":
            return "newtype"
        if a["kind"] == "enum":
            return "enum"
        if a["kind"] == "struct":
            return "single" if len(a["fields"]) == 1 else "struct"
        if a["kind"] == "unit":
            return "unit"
        raise Refuse(f"type {t[1]} is outside the subset")

    def struct_name(self, name):
        a = self.crate.adts[name]
        full = f"{a['mod']}.{lean_ident(name)}"
        if full not in self.structs:
            self.structs.append(full)
            self.struct_adt[full] = name
            a["emit_index"] = len(self.order)
        return full

    # -- generic impls read at a concrete instantiation
    def subst_type(self, t, subst, owner, trait=None):
        """a parsed type with the type parameters (`Tz`), `Self`, associated types (`Tz::Offset`: the `type Offset = …`
        item of the impl for the concrete type) and generic structs (`DateTime<Tz>`) resolved"""
        k = t[0]
        if k == "tparam":
            if t[1] not in subst:
                raise Refuse(f"type parameter `{t[1]}` is not bound to a concrete type")
            return subst[t[1]]
        if k == "self":
            if not owner or owner.startswith("<"):
                raise Refuse("`Self` without a concrete impl type")
            return ("adt", owner)
        if k == "assoc":
            b = self.subst_type(t[1], subst, owner)
            if b[0] == "adt" and t[1] == ("self",) and trait is not None and (b[1], trait, t[2]) in self.crate.assoc3:
                # `Self::Err` inside `impl Trait for T`: the `type Err = …;` of that very impl
                return self.subst_type(self.crate.assoc3[(b[1], trait, t[2])], {}, b[1])
            ga = self.crate.adts.get(b[1], {}) if b[0] == "adt" else {}
            if "gbase" in ga and t[1] == ("self",) and trait is not None:
                # `Self::Err` inside `impl<Tz> Trait for DateTime<Tz>` read at an instantiation: the `type Err = …;`
                # of the one impl of that trait whose header covers the instantiation
                hits = [(self.match_impl(gi, ga["gargs"]), ty) for gi, ty in
                        self.crate.assoc_g.get((ga["gbase"], trait, t[2]), [])]
                hits = [(bd, ty) for bd, ty in hits if bd is not None]
                if len(hits) == 1:
                    return self.subst_type(hits[0][1], hits[0][0], b[1])
            if b[0] != "adt" or (b[1], t[2]) not in self.crate.assoc:
                raise Refuse(f"associated type `{show_type(b)}::{t[2]}` is not defined in the translated files")
            if self.crate.assoc[(b[1], t[2])] == ("ambiguous",):
                raise Refuse(f"associated type `{show_type(b)}::{t[2]}` is defined differently by several impls")
            return self.subst_type(self.crate.assoc[(b[1], t[2])], {}, b[1])
        if k == "gen":
            return self.instantiate_adt(t[1], [self.subst_type(a, subst, owner) for a in t[2]], t[3])
        if k == "opt":
            return ("opt", self.subst_type(t[1], subst, owner))
        if k == "res":
            return ("res", self.subst_type(t[1], subst, owner, trait), self.subst_type(t[2], subst, owner, trait))
        if k == "tuple":
            return ("tuple", tuple(self.subst_type(x, subst, owner) for x in t[1]))
        if k == "array":
            return ("array", self.subst_type(t[1], subst, owner), t[2])
        return t

    def instantiate_adt(self, name, args, txt=None):
        """`Name<args>` for a generic struct of the translated files: a struct of its own (key `Name<A, …>`, Lean
        name `Name_A_…`) whose field types are the declared ones with the parameters replaced"""
        g = self.crate.gadts.get(name)
        if g is None or len(g["tparams"]) != len(args):
            raise Refuse(f"type `{txt or name + '<…>'}` is outside the subset")
        for a in args:
            if a[0] != "adt":
                raise Refuse(f"type `{txt or name + '<…>'}`: a type argument that is not a named type")
        key = name + "<" + ", ".join(a[1] for a in args) + ">"
        if key not in self.crate.adts:
            self.crate.adts[key] = dict(kind="opaque", why="recursive instantiation", mod=g["mod"])
            try:
                sub = dict(zip(g["tparams"], args))
                fields = [(f, self.subst_type(ft, sub, None)) for f, ft in g["fields"]]
            except Refuse:
                del self.crate.adts[key]
                raise
            self.crate.adts[key] = dict(kind="struct", fields=fields, mod=g["mod"], gbase=name, gargs=tuple(args))
        return ("adt", key)

    @staticmethod
    def match_impl(gimpl, gargs):
        """does `impl<P…> Base<args>` cover `Base<gargs>`?  -> the binding of the impl's parameters, or None"""
        if gimpl is None or len(gimpl["args"]) != len(gargs):
            return None
        bind = {}
        for ia, ga in zip(gimpl["args"], gargs):
            if ia[0] == "tparam":
                if bind.get(ia[1], ga) != ga:
                    return None
                bind[ia[1]] = ga
            elif ia != ga:
                return None
        if set(gimpl["tparams"]) - set(bind):
            return None
        return bind

    def resolve_gfn(self, owner, name, trait=None, targ=None):
        """function `name` of the instantiated generic struct `owner`: the impls `impl<…> Base<…>` whose header
        covers the instantiation; inherent impls before trait impls (Rust's method lookup order).  With `trait` /
        `targ`: the function of `impl<…> trait<targ> for Base<…>` only (a target / an operator names them)."""
        a = self.crate.adts[owner]
        hits = []
        for (b, tname, n), items in self.crate.gfns.items():
            if b == a["gbase"] and n == name:
                for it in items:
                    bind = self.match_impl(it.gimpl, a["gargs"])
                    if bind is not None:
                        hits.append((it, bind, tname))
        nall = len(hits)
        if trait is not None:
            hits = [h for h in hits if h[2] == trait and
                    (targ is None or [show_type(x) for x in h[0].gimpl["targs"]] == [targ])]
        pick = [h for h in hits if h[2] is None] or hits
        if not pick:
            raise NotFound(f"`{owner}::{name}` is not defined in the translated files")
        if len(pick) > 1:
            raise Refuse(f"`{owner}::{name}` has several definitions (cfg variants / overlapping impls)")
        it, bind, tname = pick[0]
        key = ("inst", id(it), owner)
        if key not in self.cache:
            ni = FnItem(it.mod, owner, tname, it.name, it.toks, it.sig_i, it.generic, it.rel)
            ni.tsubst = bind
            if tname is not None and nall > 1 and it.gimpl["targs"] and all(x[0] == "adt" for x in it.gimpl["targs"]):
                ni.targs = tuple(it.gimpl["targs"])
                ni.multi = True
            self.cache[key] = ni
        return self.cache[key]

    def param_images(self, ctx):
        """the concrete types a value of a parametric type (`Tz`, `Tz::Offset`, `Self` of a trait default method)
        can have inside `ctx`"""
        ts = {t[1] for t in getattr(ctx, "tsubst", {}).values() if t[0] == "adt"}
        if getattr(ctx, "default_of", None):
            ts.add(ctx.owner)
        for (o, _n), ty in list(self.crate.assoc.items()):
            if o in ts and ty[0] == "adt":
                ts.add(ty[1])
        return ts

    def norm_type(self, t, owner):
        if t[0] == "self":
            return ("adt", owner)
        if t[0] == "opt":
            return ("opt", self.norm_type(t[1], owner))
        if t[0] == "res":
            return ("res", self.norm_type(t[1], owner), self.norm_type(t[2], owner))
        if t[0] == "tuple":
            return ("tuple", tuple(self.norm_type(x, owner) for x in t[1]))
        if t[0] == "array":
            return ("array", self.norm_type(t[1], owner), None)
        return t

    def lean_type(self, t):
        if t is None:
            raise Refuse("a value whose type could not be inferred")
        if t[0] == "int":
            return "Int"
        if t[0] == "bool":
            return "Bool"
        if t[0] == "unit":
            return "Unit"
        if t[0] == "opt":
            x = self.lean_type(t[1])
            return "Option " + (x if " " not in x else f"({x})")
        if t[0] == "res":
            x, y = self.lean_type(t[1]), self.lean_type(t[2])
            return "GenRt.Result " + (x if " " not in x else f"({x})") + " " + (y if " " not in y else f"({y})")
        if t[0] == "tuple":
            return " × ".join(("(" + y + ")") if " " in y else y for y in (self.lean_type(x) for x in t[1]))
        if t[0] == "array":
            x = self.lean_type(t[1])
            return "List " + (x if " " not in x else f"({x})")
        if t[0] == "adt":
            kind = self.repr_kind(t)
            a = self.crate.adts[t[1]]
            if kind == "enum":
                return "Int"
            if kind == "unit":
                return "Unit"
            if kind == "newtype":
                return self.lean_type(self.norm_type(a["field"], t[1]))
            if kind == "single":
                return self.lean_type(self.norm_type(a["fields"][0][1], t[1]))
            if a.get("busy"):
                raise Refuse(f"struct {t[1]} is recursive")
            a["busy"] = True
            try:
                # field types first: a nested structure is registered (and emitted) before this one
                a["lean_fields"] = [(f, self.lean_type(self.norm_type(ft, t[1]))) for f, ft in a["fields"]]
            finally:
                a["busy"] = False
            return self.struct_name(t[1])
        raise Refuse(f"type {show_type(t)} is outside the subset")

    # -- constants
    def const_decl(self, mod, name, owner=None):
        c = self.crate.consts
        if owner is not None:
            if (mod, owner, name) in c:
                return c[(mod, owner, name)] + (mod, owner)
            hits = [(k, v) for k, v in c.items() if k[1] == owner and k[2] == name]
            if len(hits) == 1:
                return hits[0][1] + (hits[0][0][0], owner)
            return None
        if (mod, None, name) in c:
            return c[(mod, None, name)] + (mod, None)
        hits = [(k, v) for k, v in c.items() if k[1] is None and k[2] == name]
        if len(hits) == 1:
            return hits[0][1] + (hits[0][0][0], None)
        if len(hits) > 1:
            raise Refuse(f"constant `{name}` is defined in several modules and not in this one")
        return None

    def const_array(self, mod, name):
        """a module-level `const NAME: [intN; n] = [e, …];` of integer constant expressions -> (element type,
        values) (each value checked against the element type, the length against `n` when it is a literal); None
        if `name` is not such a constant.  The array is written out as a list literal where it is used."""
        if name in EXTRACTED_TABLES:
            return None
        try:
            d = self.const_decl(mod, name)
        except Refuse:
            return None
        if d is None or d[1] is None or d[0][0] != "array" or d[0][1][0] != "int" or d[1].k != "array":
            return None
        ty, e, rel, dmod, downer = d
        vals = [self.ceval(x, dmod, None, None, ty[1]) for x in e.es]
        for v in vals:
            self.check_const(v, ty[1], name)
        if ty[2] is not None and ty[2].k == "lit" and ty[2].v != len(vals):
            raise Refuse(f"constant array `{name}`: length differs from the declared one")
        return (ty[1], vals)

    def const_lookup(self, mod, owner, name, front=None):
        d = self.const_decl(mod, name, owner)
        if d is None:
            return None
        ty, e, rel, dmod, downer = d
        key = ("const", dmod, downer, name)
        if key in self.cache:
            if self.cache[key] == "busy":
                raise Refuse(f"constant `{name}` is defined in terms of itself")
            return self.cache[key]
        self.cache[key] = "busy"
        try:
            ty = self.norm_type(ty, downer)
            if ty[0] in ("array", "gen", "tparam", "assoc"):
                raise Refuse(f"constant `{name}` has a type outside the subset")
            if e is None:
                raise Refuse(f"constant `{name}`: initialiser outside the subset")
            v = self.ceval(e, dmod, downer, None, ty)
            self.check_const(v, ty, name)
        except Refuse:
            del self.cache[key]
            raise
        self.cache[key] = (ty, v)
        return (ty, v)

    def check_const(self, v, ty, name):
        if ty[0] == "int":
            lo, hi = int_range(ty[1])
            if not isinstance(v, int) or isinstance(v, bool) or not lo <= v <= hi:
                raise Refuse(f"constant `{name}` does not fit its type {ty[1]}")
        elif ty[0] == "bool":
            if not isinstance(v, bool):
                raise Refuse(f"constant `{name}` is not a bool")
        elif ty[0] == "adt":
            a = self.crate.adts.get(ty[1])
            if a is None or not isinstance(v, dict):
                raise Refuse(f"constant `{name}` of type {ty[1]}")
            fields = [("0", a["field"])] if a["kind"] == "newtype" else a.get("fields", [])
            for f, ft in fields:
                self.check_const(v.get(f), self.norm_type(ft, ty[1]), f"{name}.{f}")
        else:
            raise Refuse(f"constant `{name}` has a type outside the subset")

    def ceval(self, e, mod, owner, front, ty):
        """compile-time value of a constant expression (ints unbounded; `as` wraps; the declared type is checked
        at the end by check_const; `!` needs the ambient integer type `ty`)"""
        k = e.k
        if k == "paren":
            return self.ceval(e.e, mod, owner, front, ty)
        if k == "lit":
            return e.v
        if k == "bool":
            return e.v
        if k == "path":
            segs = e.segs
            if front is not None and len(segs) == 1 and segs[0] in front.lconsts:
                return front.lconsts[segs[0]][1]
            if len(segs) == 2 and segs[0] in INT_TYPES and segs[1] in ("MAX", "MIN"):
                lo, hi = int_range(segs[0])
                return hi if segs[1] == "MAX" else lo
            own = None
            if len(segs) >= 2:
                own = owner if segs[-2] == "Self" else segs[-2]
                a = self.crate.adts.get(own)
                if a and a["kind"] == "enum":
                    for vn, d in a["variants"]:
                        if vn == segs[-1]:
                            return d
            c = self.const_lookup(mod, own, segs[-1])
            if c is None:
                raise Refuse(f"constant expression refers to `{'::'.join(segs)}`, which is not a known constant")
            return c[1]
        if k == "un":
            v = self.ceval(e.e, mod, owner, front, ty)
            if e.op == "-":
                return -v
            if isinstance(v, bool):
                return not v
            if ty is None or ty[0] != "int":
                raise Refuse("`!` in a constant expression whose integer type is not evident")
            return wrap_int(~v, ty[1])
        if k == "bin":
            a = self.ceval(e.l, mod, owner, front, ty)
            b = self.ceval(e.r, mod, owner, front, ty if e.op not in ("<<", ">>") else None)
            op = e.op
            if isinstance(a, dict) or isinstance(b, dict):
                raise Refuse("operator on a struct constant")
            if op == "+":
                return a + b
            if op == "-":
                return a - b
            if op == "*":
                return a * b
            if op in ("/", "%"):
                if b == 0:
                    raise Refuse("division by zero in a constant expression")
                q = abs(a) // abs(b)
                q = q if (a >= 0) == (b >= 0) else -q
                return q if op == "/" else a - b * q
            if op == "<<":
                if ty is not None and ty[0] == "int":
                    return wrap_int(a << b, ty[1])
                return a << b
            if op == ">>":
                return a >> b
            if op == "&":
                return a & b
            if op == "|":
                return a | b
            if op == "^":
                return a ^ b
            if op in ("==", "!=", "<", ">", "<=", ">="):
                return {"==": a == b, "!=": a != b, "<": a < b, ">": a > b, "<=": a <= b, ">=": a >= b}[op]
            if op == "&&":
                return a and b
            if op == "||":
                return a or b
            raise Refuse(f"operator `{op}` in a constant expression")
        if k == "cast":
            to = self.norm_type(e.to, owner)
            if to[0] != "int":
                raise Refuse("cast to a non-integer type in a constant expression")
            v = self.ceval(e.e, mod, owner, front, None)
            if isinstance(v, bool):
                v = int(v)
            if isinstance(v, dict):
                raise Refuse("cast of a struct constant")
            return wrap_int(v, to[1])
        if k == "slit":
            name = owner if e.path[-1] == "Self" else e.path[-1]
            a = self.crate.adts.get(name)
            if a is None or a["kind"] != "struct":
                raise Refuse(f"struct literal of {name} in a constant expression")
            out = {}
            for (fname, fe) in e.fields:
                ft = dict(a["fields"]).get(fname)
                if ft is None:
                    raise Refuse(f"unknown field {fname}")
                out[fname] = self.ceval(fe, mod, owner, front, self.norm_type(ft, name))
            return out
        if k == "call" and len(e.path) == 1 and len(e.args) == 1:
            name = owner if e.path[0] == "Self" else e.path[0]
            a = self.crate.adts.get(name)
            if a is not None and a["kind"] == "newtype":
                return {"0": self.ceval(e.args[0], mod, owner, front, self.norm_type(a["field"], name))}
        if k == "field":
            v = self.ceval(e.e, mod, owner, front, None)
            if isinstance(v, dict) and e.name in v:
                return v[e.name]
        raise Refuse(f"constant expression of kind `{k}` is outside the subset")

    # -- functions
    def self_type(self, item):
        return ("adt", item.owner)

    def resolve_fn(self, owner, name, ctx, method=False, via_param=False):
        fns = self.crate.fns

        def one(cands, what):
            if len(cands) > 1:
                raise Refuse(f"{what} `{name}` has several definitions (cfg variants / overlapping impls)")
            return cands[0]
        if owner is None:
            c = fns.get((None, None, name), [])
            same = [x for x in c if x.mod == ctx.mod]
            if same:
                return one(same, "function")
            if c:
                return one(c, "function")
            raise Refuse(f"function `{name}` is not defined in the translated files")
        if owner not in self.crate.adts:
            raise Refuse(f"`{owner}::{name}`: `{owner}` is not a type of the translated files")
        if "gbase" in self.crate.adts[owner]:
            return self.resolve_gfn(owner, name)
        if self.crate.adts[owner].get("builtin"):
            if (owner, name) not in BUILTIN_FNS:
                raise Refuse(f"`core::time::{owner}::{name}` is not built into the translator")
            key = ("builtin", owner, name)
            if key not in self.cache:
                self.cache[key] = BuiltinItem(owner, name, BUILTIN_FNS[(owner, name)])
            return self.cache[key]
        dflt = getattr(ctx, "default_of", None)
        if dflt and owner == ctx.owner:          # inside a trait's default method: trait methods first
            c = fns.get((owner, dflt, name), [])
            if c:
                return one(c, "trait method")
            c = fns.get((None, dflt, name), [])
            if c:
                return self.specialise(one(c, "trait default method"), owner, dflt)
        c = fns.get((owner, None, name), [])
        ct = [x for (o, t, n), xs in fns.items() if o == owner and n == name and t is not None for x in xs]
        cd = [(x, t) for (t, o) in self.crate.impls if o == owner for x in fns.get((None, t, name), [])
              if not any(y.trait == t for y in ct)]
        if c and (ct or cd) and (via_param or owner in self.param_images(ctx)):
            # inside generic code a value of a parametric type only has the methods of its trait bounds, while at
            # the concrete type an inherent method of the same name would win: not decided here
            raise Refuse(f"`{owner}::{name}` is both an inherent and a trait method, called from generic code")
        if c:
            return one(c, "method")
        if ct:
            return one(ct, "trait method")
        if cd:
            x, t = one(cd, "trait default method")
            return self.specialise(x, owner, t)
        raise NotFound(f"`{owner}::{name}` is not defined in the translated files")

    def resolve_op(self, owner, trait, name, rhs):
        """the function `name` of the one `impl trait<rhs> for owner` (`impl trait for owner` when rhs = owner)"""
        if rhs is None or rhs[0] != "adt" or owner not in self.crate.adts:
            raise Refuse(f"operator of `{trait}` on {owner} with a right operand of type {show_type(rhs)}")
        if "gbase" in self.crate.adts[owner]:
            return self.resolve_gfn(owner, name, trait, rhs[1])
        c = [x for x in self.crate.fns.get((owner, trait, name), [])
             if [show_type(a) for a in x.targs] == [rhs[1]] or (not x.targs and rhs[1] == owner)]
        if len(c) != 1:
            raise Refuse(f"no unique `impl {trait}<{rhs[1]}> for {owner}` in the translated files")
        return c[0]

    def specialise(self, item, owner, trait):
        """the default method `item` of `trait`, read with Self = owner"""
        key = ("spec", id(item), owner)
        if key not in self.cache:
            it = FnItem(item.mod, owner, trait, item.name, item.toks, item.sig_i, item.generic, item.rel)
            it.default_of = trait
            self.cache[key] = it
        return self.cache[key]

    def lean_fn_name(self, item):
        parts = [item.mod]
        if item.owner:
            parts.append(lean_ident(item.owner))
        if item.trait:
            sibs = [x for x in self.crate.fns.get((item.owner, item.trait, item.name), []) if x.mod == item.mod]
            if item.targs and (len(sibs) > 1 or getattr(item, "multi", False)):
                # one of several `impl Trait<A> for T`: the argument is part of the name (`Add_Duration`)
                parts.append(item.trait + "_" + "_".join(lean_ident(show_type(a)) for a in item.targs))
            else:
                parts.append(item.trait)
        a = self.crate.adts.get(item.owner) if item.owner and not item.trait else None
        if a is not None and a["kind"] == "struct" and len(a["fields"]) > 1 and item.name in [f for f, _ in a["fields"]]:
            parts.append(item.name + "_fn")      # `T.f` is the projection of the generated structure
        elif item.ginst:
            parts.append(item.name + "_" + item.ginst)     # an instantiation of `fn f<T>`: `f_NaiveDateTime`
        else:
            parts.append(item.name)
        return ".".join(parts)

    def fn_info(self, item):
        key = id(item)
        got = self.infos.get(key)
        if got == "busy":
            raise Refuse(f"{item.rust_path()} is recursive")
        if isinstance(got, Refuse):
            raise Refuse(f"calls {item.rust_path()}, which is refused: {got}")
        if got is not None:
            return got
        self.infos[key] = "busy"
        try:
            info = self.translate(item)
        except Refuse as ex:
            self.infos[key] = ex
            raise
        except RecursionError:
            self.infos[key] = Refuse("expression nesting too deep")
            raise self.infos[key]
        self.infos[key] = info
        self.order.append(info)
        info.mut_self = item.mut_self
        return info

    def translate_builtin(self, item):
        sp = item.spec
        info = FnInfo()
        info.item = item
        info.has_self = sp["has_self"]
        info.params = list(sp["params"])
        info.ret = sp["ret"]
        info.lean = f"{sp['mod']}.{item.owner}.{item.name}"
        info.impure = sp["impure"]
        rt = self.lean_type(sp["ret"])
        binders = "".join(f" ({n} : {self.lean_type(t)})" for n, t in sp["params"])
        info.text = (f"/-- `{item.rust_path()}` (the standard library's; built into the translator) -/\n"
                     f"def {info.lean}{binders} : {'Res ' + rt if sp['impure'] else rt} :=\n{ind(sp['body'])}\n")
        return info

    def translate(self, item):
        if isinstance(item, BuiltinItem):
            return self.translate_builtin(item)
        if item.generic:
            raise Refuse("generic function")
        params, has_self, ret, body = item.parse()
        front = FnFront(self, item)
        front.idents = item.idents
        body = front.infer_fn()
        rt = front.T.final(front.ret)
        if rt == UNIT or rt == NEVER:
            raise Refuse("function without a result")
        info = FnInfo()
        info.item = item
        info.has_self = has_self
        info.params = [(n, front.T.final(t)) for n, t in front.params]
        info.ret = rt
        info.lean = self.lean_fn_name(item)
        rt_lean = qualify(self.lean_type(rt), item.idents, self.mods)
        ptypes = [qualify(self.lean_type(t), item.idents, self.mods) for _, t in info.params]
        t1 = FnTrans(self, front, body, pure=False)
        code = t1.run()
        if not t1.impure:
            t1 = FnTrans(self, front, body, pure=True)
            code = t1.run()
        info.impure = t1.impure
        res_ty = rt_lean if not info.impure else "Res " + (rt_lean if " " not in rt_lean else f"({rt_lean})")
        binders = "".join(f" ({n} : {t})" for n, t in zip(t1.param_names, ptypes))
        info.text = (f"/-- `{item.rust_path()}` ({item.rel}) -/\n"
                     f"def {info.lean}{binders} : {res_ty} :=\n{ind(code)}\n")
        return info


# ------------------------------------------------------------------------------------------------ plugin entry
FILES = [
    ("src/naive/internals.rs", "naive_internals"),
    ("src/naive/date/mod.rs", "naive_date"),
    ("src/naive/isoweek.rs", "naive_isoweek"),
    ("src/time_delta.rs", "time_delta"),
    ("src/weekday.rs", "weekday"),
    ("src/month.rs", "month"),
    ("src/traits.rs", "traits"),
    ("src/naive/time/mod.rs", "naive_time"),
    ("src/offset/fixed.rs", "offset_fixed"),
    ("src/naive/mod.rs", "naive"),
    ("src/naive/datetime/mod.rs", "naive_datetime"),
    ("src/offset/utc.rs", "offset_utc"),
    ("src/offset/mod.rs", "offset"),
    ("src/datetime/mod.rs", "datetime"),
    ("src/offset/local/tz_info/mod.rs", "tz_info"),
    ("src/offset/local/tz_info/rule.rs", "tz_info_rule"),
    ("src/round.rs", "round"),
]

# (file, impl type | None, function)                      an inherent / free function
# (file, impl type, function, trait)                      a method of `impl trait for type`
# (file, None, function, trait, Self type)                a trait default method read at the given Self
# (file, "Base<Arg>", function)                           a function of a generic impl (`impl<Tz: TimeZone> DateTime<Tz>`,
#                                                         `impl DateTime<Utc>`) read at the instantiation `Base<Arg>`
DT_BOTH = ["timestamp", "timestamp_millis", "timestamp_micros", "timestamp_nanos_opt", "timestamp_subsec_millis",
           "timestamp_subsec_micros", "timestamp_subsec_nanos", "naive_utc", "naive_local", "overflowing_naive_local",
           "timezone", "to_utc", "fixed_offset", "checked_add_signed", "checked_sub_signed", "checked_add_months",
           "checked_sub_months", "checked_add_days", "checked_sub_days", "with_time"]
TARGETS = (
    [("src/naive/internals.rs", "YearFlags", f) for f in
     ["from_year_mod_400", "from_year", "ndays", "isoweek_delta", "nisoweeks"]]
    + [("src/naive/internals.rs", "Mdf", f) for f in
       ["new", "from_ol", "month", "with_month", "day", "with_day", "with_flags", "ordinal", "year_flags",
        "ordinal_and_flags"]]
    + [("src/naive/date/mod.rs", None, f) for f in ["cycle_to_yo", "yo_to_cycle", "div_mod_floor"]]
    + [("src/naive/date/mod.rs", "NaiveDate", f) for f in
       ["from_yof", "yof", "year", "ordinal", "leap_year", "year_flags", "weekday", "mdf", "month", "day",
        "from_ordinal_and_flags", "from_yo_opt", "from_mdf", "from_ymd_opt", "from_num_days_from_ce_opt", "add_days",
        "num_days_from_ce", "succ_opt", "pred_opt", "with_mdf", "diff_months"]]
    + [("src/traits.rs", None, "num_days_from_ce", "Datelike", "NaiveDate")]
    + [("src/naive/isoweek.rs", "IsoWeek", "from_yof")]
    + [("src/time_delta.rs", None, "div_mod_floor_64")]
    + [("src/time_delta.rs", "TimeDelta", f) for f in
       ["new", "try_seconds", "try_weeks", "try_days", "try_hours", "try_minutes", "try_milliseconds", "microseconds",
        "nanoseconds", "num_seconds", "subsec_nanos", "num_minutes", "num_hours", "num_days", "num_weeks",
        "subsec_millis", "subsec_micros", "num_milliseconds", "num_microseconds", "num_nanoseconds", "checked_add",
        "checked_sub", "checked_mul", "checked_div", "neg", "abs", "is_zero"]]
    + [("src/weekday.rs", "Weekday", f) for f in
       ["succ", "pred", "days_since", "num_days_from_monday", "number_from_monday", "num_days_from_sunday",
        "number_from_sunday"]]
    + [("src/month.rs", "Month", f) for f in ["succ", "pred", "number_from_month"]]
    + [("src/naive/time/mod.rs", "NaiveTime", f) for f in
       ["from_hms_opt", "from_hms_milli_opt", "from_hms_micro_opt", "from_hms_nano_opt",
        "from_num_seconds_from_midnight_opt", "hms", "num_seconds_from_midnight", "nanosecond",
        "overflowing_add_signed", "overflowing_sub_signed", "signed_duration_since", "overflowing_add_offset",
        "overflowing_sub_offset"]]
    + [("src/naive/time/mod.rs", "NaiveTime", f, "Timelike") for f in
       ["hour", "minute", "second", "nanosecond", "with_hour", "with_minute", "with_second", "with_nanosecond",
        "num_seconds_from_midnight"]]
    + [("src/traits.rs", None, f, "Timelike", "NaiveTime") for f in ["hour12", "num_seconds_from_midnight"]]
    + [("src/offset/fixed.rs", "FixedOffset", f) for f in
       ["east_opt", "west_opt", "local_minus_utc", "utc_minus_local"]]
    + [("src/naive/date/mod.rs", "NaiveDate", f) for f in
       ["checked_add_months", "checked_sub_months", "checked_add_days", "checked_sub_days", "checked_add_signed",
        "checked_sub_signed", "signed_duration_since", "years_since", "from_weekday_of_month_opt", "week"]]
    + [("src/naive/date/mod.rs", "NaiveDate", f, "Datelike") for f in
       ["with_year", "with_month", "with_month0", "with_day", "with_day0", "with_ordinal", "with_ordinal0"]]
    + [("src/naive/mod.rs", "NaiveWeek", f) for f in
       ["new", "first_day", "checked_first_day", "last_day", "checked_last_day"]]
    + [("src/naive/datetime/mod.rs", "NaiveDateTime", f) for f in
       ["checked_add_signed", "checked_sub_signed", "checked_add_offset", "checked_sub_offset",
        "overflowing_add_offset", "overflowing_sub_offset", "signed_duration_since", "checked_add_months",
        "checked_sub_months", "checked_add_days", "checked_sub_days"]]
    + [("src/naive/datetime/mod.rs", "NaiveDateTime", "and_utc")]
    + [("src/datetime/mod.rs", "DateTime<Utc>", f) for f in
       ["from_timestamp", "from_timestamp_millis", "from_timestamp_micros", "from_timestamp_nanos"]]
    + [("src/datetime/mod.rs", inst, f) for inst in ["DateTime<Utc>", "DateTime<FixedOffset>"] for f in DT_BOTH]
    + [("src/offset/mod.rs", None, "from_utc_datetime", "TimeZone", z) for z in ["Utc", "FixedOffset"]]
    + [("src/offset/local/tz_info/rule.rs", None, f) for f in ["is_leap_year", "days_since_unix_epoch"]]
    + [("src/naive/date/mod.rs", "NaiveDate", "from_isoywd_opt")]
    + [("src/naive/date/mod.rs", "NaiveDate", f, "Datelike") for f in
       ["iso_week", "month0", "day0", "ordinal0", "year", "month", "day", "ordinal", "weekday"]]
    + [("src/naive/isoweek.rs", "IsoWeek", f) for f in ["year", "week", "week0"]]
    + [("src/traits.rs", None, f, "Datelike", "NaiveDate") for f in ["year_ce", "quarter", "num_days_in_month"]]
    + [("src/month.rs", "Month", "num_days")]
    + [("src/naive/mod.rs", "NaiveWeek", f) for f in ["checked_days", "days"]]
    + [("src/naive/datetime/mod.rs", "NaiveDateTime", f, "Datelike") for f in
       ["with_year", "with_month", "with_month0", "with_day", "with_day0", "with_ordinal", "with_ordinal0"]]
    + [("src/naive/datetime/mod.rs", "NaiveDateTime", f, "Timelike") for f in
       ["with_hour", "with_minute", "with_second", "with_nanosecond"]]
    + [("src/time_delta.rs", "TimeDelta", f) for f in ["from_std", "to_std"]]
    + [("src/naive/time/mod.rs", "NaiveTime", "add", "Add<Duration>"),
       ("src/naive/time/mod.rs", "NaiveTime", "sub", "Sub<Duration>"),
       ("src/naive/time/mod.rs", "NaiveTime", "add", "Add<TimeDelta>"),
       ("src/naive/time/mod.rs", "NaiveTime", "sub", "Sub<TimeDelta>"),
       ("src/naive/time/mod.rs", "NaiveTime", "add", "Add<FixedOffset>"),
       ("src/naive/time/mod.rs", "NaiveTime", "sub", "Sub<FixedOffset>")]
    + [("src/naive/datetime/mod.rs", "NaiveDateTime", "add", "Add<Duration>"),
       ("src/naive/datetime/mod.rs", "NaiveDateTime", "sub", "Sub<Duration>"),
       ("src/naive/datetime/mod.rs", "NaiveDateTime", "add", "Add<TimeDelta>"),
       ("src/naive/datetime/mod.rs", "NaiveDateTime", "sub", "Sub<TimeDelta>")]
    + [("src/datetime/mod.rs", inst, f, t) for inst in ["DateTime<Utc>", "DateTime<FixedOffset>"]
       for f, t in [("add", "Add<TimeDelta>"), ("sub", "Sub<TimeDelta>"), ("add", "Add<Duration>"),
                    ("sub", "Sub<Duration>")]]
    + [("src/round.rs", None, "span_for_digits")]
    + [("src/round.rs", "NaiveDateTime", f, "DurationRound") for f in
       ["duration_round", "duration_trunc", "duration_round_up"]]
    + [("src/round.rs", "DateTime<FixedOffset>", f, "DurationRound") for f in
       ["duration_round", "duration_trunc", "duration_round_up"]]
)


def build(read):
    """-> (text of Gen.lean, report dict).  `read(rel)` returns the text of a source file."""
    crate = Crate()
    problems = {}
    for rel, mod in FILES:
        try:
            crate.scan_file(rel, mod, read(rel))
        except (Refuse, OSError) as ex:
            problems[rel] = f"cannot scan: {ex}"
    for bn, ba in BUILTIN_ADTS.items():
        if bn not in crate.adts and bn not in crate.gadts:
            crate.adts[bn] = dict(ba)
    gen = Gen(crate)
    translated, refused, missing = [], [], []
    for tgt in TARGETS:
        rel, owner, name = tgt[0], tgt[1], tgt[2]
        mod = dict(FILES)[rel]
        label = f"{rel}: " + (f"{owner}::" if owner else "") + name
        targ = None
        if len(tgt) == 4 and "<" in tgt[3]:
            targ = tgt[3][tgt[3].index("<") + 1:-1].strip()
            tgt = tgt[:3] + (tgt[3][:tgt[3].index("<")],)
        if len(tgt) == 4:
            label = f"{rel}: <{owner} as {tgt[3]}{'<' + targ + '>' if targ else ''}>::{name}"
        if len(tgt) > 4:
            label = f"{rel}: {tgt[3]}::{name} (Self = {tgt[4]})"
        if rel in problems:
            missing.append((label, problems[rel]))
            continue
        try:
            if owner and "<" in owner:
                base, args = owner[:-1].split("<")
                if base not in crate.gadts:
                    missing.append((label, f"generic struct `{base}` not found"))
                    continue
                try:
                    ty = gen.instantiate_adt(base, [("adt", a.strip()) for a in args.split(",")])
                    if len(tgt) == 4:
                        cands = [x for x in [gen.resolve_gfn(ty[1], name, tgt[3], targ)] if x.mod == mod]
                    else:
                        cands = [x for x in [gen.resolve_fn(ty[1], name, None)] if x.mod == mod]
                except NotFound:
                    cands = []
            elif len(tgt) > 4:
                cands = [x for x in crate.fns.get((None, tgt[3], name), []) if x.mod == mod]
                cands = [gen.specialise(x, tgt[4], tgt[3]) for x in cands]
            elif len(tgt) == 4:
                cands = [x for x in crate.fns.get((owner, tgt[3], name), []) if x.mod == mod
                         and (targ is None or [show_type(a) for a in x.targs] == [targ])]
            else:
                cands = [x for x in crate.fns.get((owner, None, name), []) if x.mod == mod]
            if not cands:
                missing.append((label, "not found"))
                continue
            if len(cands) > 1:
                refused.append((label, "several definitions (cfg variants)"))
                continue
            info = gen.fn_info(cands[0])
            translated.append((label, info.lean))
        except Refuse as ex:
            refused.append((label, str(ex)))
    out = ["-- GENERATED by tools/extractors/rust2lean.py from the Rust source text; do not edit.",
           "-- Semantics of the translated subset: see the docstring of that file and lean/Chrono/GenRt.lean.",
           "import Chrono.Prim", "import Chrono.GenRt", "import Chrono.Extracted.Tables", "",
           "namespace Chrono.Gen", "open Chrono", ""]
    for full in gen.structs:
        a = crate.adts[gen.struct_adt[full]]
        out.append(f"/-- `struct {gen.struct_adt[full]}` -/")
        out.append(f"structure {full} where")
        for f, ft in a["lean_fields"]:
            out.append(f"  {f} : {ft}")
        out.append("  deriving DecidableEq, Repr")
        out.append("")
    for info in gen.order:
        out.append(info.text)

    def q(s):
        return '"' + s.replace("\\", "\\\\").replace('"', '\\"') + '"'
    out.append("/-- the targets of the translator that were translated (target, definition) -/")
    out.append("def translated : List (String × String) := [" + ",".join(f"\n  ({q(a)}, {q(b)})" for a, b in translated) + "]")
    out.append("")
    out.append("/-- the targets of the translator that are outside the translated subset, with the reason -/")
    out.append("def refused : List (String × String) := [" + ",".join(f"\n  ({q(a)}, {q(b)})" for a, b in refused + missing) + "]")
    out.append("")
    out.append("end Chrono.Gen")
    text = "\n".join(out) + "\n"
    rep = {"translated": [a for a, _ in translated], "refused": [[a, b] for a, b in refused],
           "missing": [[a, b] for a, b in missing],
           "defs": [i.lean for i in gen.order]}
    return text, rep


def run(api):
    text, rep = build(api.read)
    for label, why in rep["missing"]:
        def fail(why=why):
            raise LookupError(why)
        api.section("rust2lean " + label, label.split(":")[0], fail, None)
    for label in rep["translated"]:
        api.section("rust2lean " + label, label.split(":")[0], lambda: True, None)
    for label, why in rep["refused"]:
        api.section("rust2lean (refused) " + label, label.split(":")[0], lambda: True, None)
    api.keep("rust2lean", rep)
    api.emit("Gen.lean", text)


if __name__ == "__main__":
    import os
    import sys
    root = sys.argv[1] if len(sys.argv) > 1 else "/repo"
    t, r = build(lambda rel: open(os.path.join(root, rel), encoding="utf-8").read())
    if "-q" not in sys.argv:
        sys.stdout.write(t)
    for a, b in r["refused"] + r["missing"]:
        sys.stderr.write(f"REFUSED {a}: {b}\n")
