"""C14: the accepted argument range of every integer-valued `Parsed::set_*` method, translated from
src/format/parsed.rs on every run.

Per setter the guard is one of
  * `if !(LO..=HI).contains(&value) { return Err(OUT_OF_RANGE); }`   -> [LO, HI]
  * `if !(LO..HI).contains(&value)  { return Err(OUT_OF_RANGE); }`   -> [LO, HI-1]
  * `i32::try_from(value).map_err(|_| OUT_OF_RANGE)?`                -> [i32::MIN, i32::MAX]
  * `match value { hour @ A..=B => …, hour @ C..=D => …, _ => return Err(OUT_OF_RANGE) }` -> [min, max]
    (the arms must be contiguous)
  * no guard at all (`set_timestamp`)                                  -> [i64::MIN, i64::MAX]
`Chrono.Props.C14.setter_ranges` proves, for every `Int` argument, that the model's setter reports
OUT_OF_RANGE exactly outside the extracted range; a changed bound makes that theorem fail.
Output: lean/Chrono/Extracted/Setters.lean (`SET_RANGE_<name> : Int × Int`, `SETTER_NAMES`).
"""
import os
import re

SRC = "src/format/parsed.rs"
I32_MIN, I32_MAX = -2**31, 2**31 - 1
I64_MIN, I64_MAX = -2**63, 2**63 - 1


def block_after(src, start):
    i = src.index("{", start)
    depth, j = 0, i
    while j < len(src):
        if src[j] == "{":
            depth += 1
        elif src[j] == "}":
            depth -= 1
            if depth == 0:
                return src[i:j + 1]
        j += 1
    raise LookupError("unbalanced block")


def previous():
    p = os.path.join(os.path.dirname(os.path.dirname(os.path.dirname(os.path.abspath(__file__)))),
                     "lean", "Chrono", "Extracted", "Setters.lean")
    prev = {}
    try:
        for m in re.finditer(r"def SET_RANGE_(\w+) : Int × Int := \((-?\d+), (-?\d+)\)", open(p).read()):
            prev[m.group(1)] = (int(m.group(2)), int(m.group(3)))
    except OSError:
        pass
    return prev


def range_of(api, body):
    m = re.search(r"if\s*!\s*\(([^()]*?)\.\.(=?)([^()]*?)\)\s*\.contains\(&value\)\s*\{\s*return Err\(OUT_OF_RANGE\);", body)
    if m:
        lo, hi = api.ev(m.group(1), {}), api.ev(m.group(3), {})
        return (lo, hi if m.group(2) == "=" else hi - 1)
    if re.search(r"i32::try_from\(value\)\.map_err\(\|_\|\s*OUT_OF_RANGE\)\?", body):
        return (I32_MIN, I32_MAX)
    if re.search(r"match value\s*\{", body):
        arms = [(int(a), int(b)) for a, b in re.findall(r"\w+\s*@\s*(\d+)\s*\.\.=\s*(\d+)\s*=>", body)]
        if not arms or not re.search(r"_\s*=>\s*return Err\(OUT_OF_RANGE\)", body):
            raise LookupError("match without range arms / default OUT_OF_RANGE")
        arms.sort()
        for (a, b), (c, d) in zip(arms, arms[1:]):
            if c != b + 1:
                raise LookupError("match arms not contiguous")
        return (arms[0][0], arms[-1][1])
    if "OUT_OF_RANGE" not in body:
        return (I64_MIN, I64_MAX)
    raise LookupError("unrecognised guard")


def run(api):
    prev = previous()
    src = api.strip_comments(api.read(SRC))
    heads = list(re.finditer(r"pub fn set_(\w+)\(&mut self,\s*(?:mut\s+)?value:\s*i64\)\s*->\s*ParseResult<\(\)>", src))
    names = []
    text = api.hdr + "namespace Chrono.Extracted\n\n"
    for h in heads:
        name = h.group(1)
        def get(h=h):
            return range_of(api, block_after(src, h.end()))
        val = api.section("SET_RANGE_" + name, SRC, get, prev.get(name))
        if val is None:
            continue
        names.append(name)
        text += f"def SET_RANGE_{name} : Int × Int := ({val[0]}, {val[1]})\n"
    text += "\n/-- the integer-valued setters, in source order -/\n"
    text += "def SETTER_NAMES : List String := [" + ", ".join('"' + n + '"' for n in names) + "]\n"
    text += "\nend Chrono.Extracted\n"
    api.emit("Setters.lean", text)
