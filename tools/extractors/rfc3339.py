"""C10: data of the strict RFC 3339 reader and of the writer, translated from the Rust source.

  RFC3339_NANO_SCALE      the `SCALE` table of `scan::nanosecond` (digits consumed -> multiplier)
  RFC3339_FIXED_SCALE     the `SCALE` table of `scan::nanosecond_fixed`
  RFC3339_WIDTHS          the (min, max) arguments of every `scan::number` call in `parse_rfc3339`, in order
  RFC3339_SEPARATORS      the bytes accepted between date and time in `parse_rfc3339`
  RFC3339_CHARS           the byte arguments of the `scan::char` calls in `parse_rfc3339`, in order
  RFC3339_TZ_FLAGS        (allow_zulu, allow_missing_minutes, allow_tz_minus_sign) of its `timezone_offset` call
  RFC3339_WRITE_LITS      the integer literals of `write_rfc3339` (year bounds, leap threshold, divisors), in order

`Chrono.Props.C10.source_data_ok` states what these are for the code the model was written against and
ties the model's own table (`Scan.SCALE`) to them; a changed cell, width, flag or divisor makes that
theorem fail on the re-extracted data.  Output: lean/Chrono/Extracted/Rfc3339.lean.
"""
import os
import re

SCAN = "src/format/scan.rs"
PARSE = "src/format/parse.rs"
FMT = "src/format/formatting.rs"


def block_after(src, start):
    i = src.index("{", start)
    depth, j = 0, i
    while j < len(src):
        if src[j] == "{":
            depth += 1
        elif src[j] == "}":
            depth -= 1
            if depth == 0:
                return src[i:j + 1]
        j += 1
    raise LookupError("unbalanced block")


def fn_body(src, pat):
    ms = list(re.finditer(pat, src))
    if len(ms) != 1:
        raise LookupError(f"{pat}: {len(ms)} matches")
    return block_after(src, ms[0].start())


def ints(text):
    return [int(m.group(1).replace("_", "")) for m in
            re.finditer(r"(?<![\w.])(\d[\d_]*)(?:u8|u16|u32|u64|i8|i16|i32|i64|usize)?(?![\w.])", text)]


def previous():
    p = os.path.join(os.path.dirname(os.path.dirname(os.path.dirname(os.path.abspath(__file__)))),
                     "lean", "Chrono", "Extracted", "Rfc3339.lean")
    prev = {}
    try:
        for m in re.finditer(r"def (RFC3339_\w+) : List (?:Int|Nat|Bool) := \[([^\]]*)\]", open(p).read()):
            vals = [x.strip() for x in m.group(2).split(",") if x.strip()]
            prev[m.group(1)] = [x == "true" if x in ("true", "false") else int(x) for x in vals]
    except OSError:
        pass
    return prev


def run(api):
    prev = previous()
    scan = api.strip_comments(api.read(SCAN))
    parse = api.strip_comments(api.read(PARSE))
    fmt = api.strip_comments(api.read(FMT))

    def scale(fn):
        body = fn_body(scan, r"fn " + fn + r"\(")
        m = re.search(r"static SCALE: \[i64; (\d+)\]\s*=\s*\[([^\]]*)\]", body)
        if not m:
            raise LookupError("SCALE table not found in " + fn)
        v = [int(x.strip().replace("_", "")) for x in m.group(2).split(",") if x.strip()]
        if len(v) != int(m.group(1)):
            raise LookupError("SCALE length")
        return v

    def body3339():
        return fn_body(parse, r"pub\(crate\) fn parse_rfc3339<'a>\(")

    def widths():
        v = []
        for m in re.finditer(r"scan::number\(s,\s*(\d+),\s*(\d+)\)", body3339()):
            v += [int(m.group(1)), int(m.group(2))]
        if not v:
            raise LookupError("no scan::number calls")
        return v

    def seps():
        m = re.search(r"Some\(((?:&b'[^']'\s*\|?\s*)+)\)\s*=>\s*&s\[1\.\.\]", body3339())
        if not m:
            raise LookupError("separator arm not found")
        return [ord(x) for x in re.findall(r"&b'(.)'", m.group(1))]

    def chars():
        v = [ord(x) for x in re.findall(r"scan::char\(s,\s*b'(.)'\)", body3339())]
        if not v:
            raise LookupError("no scan::char calls")
        return v

    def flags():
        m = re.search(r"scan::timezone_offset\(s,\s*\|s\|\s*scan::char\(s,\s*b':'\),\s*(true|false),\s*(true|false),\s*(true|false)\)",
                      body3339())
        if not m:
            raise LookupError("timezone_offset call not found")
        return [g == "true" for g in m.groups()]

    def write_lits():
        body = fn_body(fmt, r"pub\(crate\) fn write_rfc3339\(")
        body = re.sub(r'"[^"]*"', '""', body)
        return ints(body)

    items = [
        ("RFC3339_NANO_SCALE", SCAN, lambda: scale("nanosecond"), "Int"),
        ("RFC3339_FIXED_SCALE", SCAN, lambda: scale("nanosecond_fixed"), "Int"),
        ("RFC3339_WIDTHS", PARSE, widths, "Nat"),
        ("RFC3339_SEPARATORS", PARSE, seps, "Nat"),
        ("RFC3339_CHARS", PARSE, chars, "Nat"),
        ("RFC3339_TZ_FLAGS", PARSE, flags, "Bool"),
        ("RFC3339_WRITE_LITS", FMT, write_lits, "Int"),
    ]
    text = api.hdr + "namespace Chrono.Extracted\n\n"
    for key, rel, fn, ty in items:
        val = api.section(key, rel, fn, prev.get(key))
        if val is None:
            continue
        api.keep(key, val)
        shown = ", ".join(("true" if v else "false") if isinstance(v, bool) else str(v) for v in val)
        text += f"def {key} : List {ty} := [{shown}]\n"
    text += "\nend Chrono.Extracted\n"
    api.emit("Rfc3339.lean", text)
