"""C12: the DOCUMENTATION table of src/format/strftime.rs (the module doc comment `/*! ... */`, section
"## Specifiers"), read as text — not the match arms (those are tools/extractors/strftime.py):

  DOC_TABLE      one entry per table row that names a specifier:
                 (text after `%`, text of the Example cell without the back-ticks, Description cell)
  DOC_SAME_AS    for every row whose description contains the unqualified sentence "Same as `X`." :
                 ("%<spec>", X); plus footnote 5 of `%+` ("Same as `X`, i.e. ...")
  DOC_MODIFIERS  the padding-modifier table below it: (modifier character, description)
  DOC_FOOTNOTE7  the example of footnote 7: what 7 microseconds print with `%f` and with `%.f`

`Chrono.Props.C12.doc_table_is_source` states that the Spec's transcription (`Spec.StrftimeDoc.docRows`,
each row with its formal reading) is exactly this table; a changed, added or removed documentation row
makes that theorem fail on the re-extracted data, a changed match arm makes `documented_items` fail.
Output: lean/Chrono/Extracted/DocTable.lean.
"""
import os
import re

SRC = "src/format/strftime.rs"


def lean_str(s):
    return '"' + s.replace("\\", "\\\\").replace('"', '\\"') + '"'


def cell_code(cell):
    """content of a cell that is one back-ticked code span (inner blanks kept), '' for an empty cell"""
    c = cell.strip()
    if c == "":
        return ""
    m = re.fullmatch(r"`(.*)`", c)
    if not m or "`" in m.group(1):
        raise LookupError("cell is not a single code span: " + repr(cell))
    return m.group(1)


def extract(api):
    src = api.read(SRC)
    m = re.search(r"/\*!(.*?)\*/", src, re.S)
    if not m:
        raise LookupError("module doc comment not found")
    doc = m.group(1)
    a = doc.index("## Specifiers")
    b = doc.index("It is possible to override the default padding")
    rows = []
    for ln in doc[a:b].splitlines():
        if not ln.startswith("|"):
            continue
        cells = ln.split("|")
        if len(cells) != 5 or cells[0] != "" or cells[4].strip() != "":
            raise LookupError("table row with unexpected cell count: " + ln)
        spec, example, descr = cells[1], cells[2], cells[3].strip()
        if spec.strip() in ("", "Spec.") or set(spec.strip()) == {"-"}:
            continue
        sp = cell_code(spec)
        if not sp.startswith("%") or len(sp) < 2:
            raise LookupError("specifier cell does not start with %: " + ln)
        rows.append((sp[1:], cell_code(example), descr))
    if len(rows) < 50:
        raise LookupError("only %d documentation rows recognised" % len(rows))
    same = []
    for sp, _, descr in rows:
        for x in re.findall(r"Same as `([^`]+)`\.", descr):
            same.append(("%" + sp, x))
    m5 = re.search(r"\[\^5\]: `(%\+)`: Same as `([^`]+)`", doc)
    if not m5:
        raise LookupError("footnote 5 (expansion of %+) not found")
    same.append((m5.group(1), m5.group(2)))
    mods = []
    c = doc.index("Modifier | Description")
    d = doc.index("Notes:", c)
    for ln in doc[c:d].splitlines():
        mm = re.fullmatch(r"`%(.)\?`\s*\|\s*(.*\S)\s*", ln)
        if mm:
            mods.append((mm.group(1), mm.group(2)))
    if len(mods) != 3:
        raise LookupError("padding modifier table: %d rows" % len(mods))
    m7 = re.search(r"Example: 7μs is formatted as `([^`]*)` with `%f`, and formatted as `([^`]*)` with `%\.f`\.", doc)
    if not m7:
        raise LookupError("footnote 7 example not found")
    t = api.hdr + "namespace Chrono.Extracted\n\n"
    t += "/-- rows of the \"Specifiers\" table of the module documentation: (specifier text after `%`, example, description) -/\n"
    t += "def DOC_TABLE : List (String × String × String) := [\n  " + ",\n  ".join(
        f"({lean_str(s)}, {lean_str(e)}, {lean_str(dn)})" for s, e, dn in rows) + "]\n\n"
    t += "/-- the documentation's own equivalences: (specifier, format string it is \"Same as\") -/\n"
    t += "def DOC_SAME_AS : List (String × String) := [" + ", ".join(
        f"({lean_str(s)}, {lean_str(x)})" for s, x in same) + "]\n\n"
    t += "/-- the padding-modifier table: (modifier character, description) -/\n"
    t += "def DOC_MODIFIERS : List (String × String) := [\n  " + ",\n  ".join(
        f"({lean_str(s)}, {lean_str(x)})" for s, x in mods) + "]\n\n"
    t += "/-- footnote 7: 7 microseconds with `%f` and with `%.f` -/\n"
    t += f"def DOC_FOOTNOTE7 : String × String := ({lean_str(m7.group(1))}, {lean_str(m7.group(2))})\n\n"
    t += "end Chrono.Extracted\n"
    return t


def run(api):
    prev_path = os.path.join(os.path.dirname(os.path.dirname(os.path.dirname(os.path.abspath(__file__)))),
                             "lean", "Chrono", "Extracted", "DocTable.lean")
    prev = None
    if os.path.exists(prev_path):
        with open(prev_path) as f:
            prev = f.read()
    text = api.section("DOC_TABLE", SRC, lambda: extract(api), prev)
    if text is not None:
        api.keep("DOC_TABLE_sha", __import__("hashlib").sha256(text.encode()).hexdigest())
        api.emit("DocTable.lean", text)
