"""All properties: the source text of the code each property is anchored in, as decision tokens.

`properties.jsonl` names, per property, the mechanisms it rests on (`anchors.mechanism[].where`:
"src/file.rs: fn_a, Type::fn_b, CONST; src/other.rs: impl Trait for T").  The models in
lean/Chrono/Model are hand-written mirrors of exactly that code.  This translator resolves every
named item to its definition(s) in /repo on every run and records the ordered decision tokens of
each body:
  * integer literals (any radix, `_` and type suffix removed, rendered in decimal), char and byte
    literals, string literals of at most 12 bytes (longer ones — messages — as `"…"`),
  * every operator (comparison, arithmetic, bit, logic, range, `?`, `=>`, `!`, compound assignment),
  * control keywords (`if else match while for loop return break continue as in`),
  * every identifier that is called (`name(`, `name!(`), every identifier containing an upper-case
    letter (types, enum variants, constants), the primitive type names (casts), `true`/`false`/`self`,
  * every other lower-case identifier (local, parameter, field) as `v<k>`, k = rank of its first
    occurrence in the item: a consistent rename changes nothing, exchanging two of them does.
Dropped: comments, attributes, white space, punctuation, declaration keywords.
`lean/Chrono/Pins/Cnn.lean` (written by tools/pin_anchors.py when a model is (re)validated against
the source, never by a check) states what these lists were when the model was written; its theorems
are proof obligations of property Cnn, so a change to anchored code makes the check fall back to
the search for a failing input and, if none is found, report `no-failing-input-found`.
Besides the items the properties name, the translator follows calls: every function of the crate
whose name is unique in the crate (and is not also a std method name) and that an anchored item
calls, transitively, is recorded as `callee …` and pinned in the same way (a change in
`scan::short_weekday` matters to whoever calls `short_or_long_weekday`).
Output: lean/Chrono/Extracted/Anchors.lean and the item `anchors` of the extraction report.
"""
import json
import os
import re

VERIF = os.path.dirname(os.path.dirname(os.path.dirname(os.path.abspath(__file__))))

KEYWORDS = {"if", "else", "match", "while", "for", "loop", "return", "break", "continue", "as", "in"}
DROPPED = {"let", "mut", "ref", "pub", "const", "fn", "use", "crate", "super", "where", "impl", "dyn", "move", "unsafe",
           "static", "struct", "enum", "type", "trait", "mod", "extern", "async", "await"}
PRIMS = {"i8", "i16", "i32", "i64", "i128", "isize", "u8", "u16", "u32", "u64", "u128", "usize", "bool", "char",
         "str", "f32", "f64"}
TOK = re.compile(
    r'(?P<str>b?"(?:[^"\\]|\\.)*")'
    r"|(?P<chr>b?'(?:[^'\\]|\\.[^']*)')"
    r"|(?P<life>'[A-Za-z_]\w*)"
    r"|(?P<num>(?<![\w.])(?:0b[01_]+|0o[0-7_]+|0x[0-9a-fA-F_]+|\d[\d_]*(?:\.\d[\d_]*)?)(?:[iu](?:8|16|32|64|128|size)|f32|f64)?)"
    r"|(?P<id>[A-Za-z_]\w*)(?P<call>\s*!?\s*\()?"
    r"|(?P<op>\.\.=|\.\.|<<=|>>=|==|!=|<=|>=|&&|\|\||<<|>>|\+=|-=|\*=|/=|%=|\^=|&=|\|=|=>|->|[<>+\-*/%&|^!?=])")


def strip_attrs(text):
    # unit-test modules are not part of any mechanism
    while True:
        m = re.search(r"#\[cfg\(test\)\]\s*(?:pub(?:\([^)]*\))?\s+)?mod\s+\w+\s*\{", text)
        if not m:
            break
        try:
            _, end = block_from(text, m.start())
        except (LookupError, ValueError):
            break
        text = text[:m.start()] + text[end:]
    return re.sub(r"#!?\[[^\]]*\]", "", text)


def tokens(text):
    out = []
    local = {}
    for m in TOK.finditer(text):
        k = m.lastgroup
        if m.group("str") is not None:
            s = m.group("str")
            body = s[s.index('"') + 1:-1]
            out.append(s if len(body.encode()) <= 12 else '"…"')
        elif m.group("chr") is not None:
            out.append(m.group("chr"))
        elif m.group("life") is not None:
            continue
        elif m.group("num") is not None:
            n = re.sub(r"(?:[iu](?:8|16|32|64|128|size)|f32|f64)$", "", m.group("num")).replace("_", "")
            try:
                out.append(str(int(n, 0)))
            except ValueError:
                out.append(n)
        elif m.group("id") is not None:
            i = m.group("id")
            if m.group("call") is not None:
                out.append(i + ("!" if "!" in m.group("call") else "") + "(")
            elif i in KEYWORDS or i in PRIMS or i in ("true", "false", "self") or any(c.isupper() for c in i):
                out.append(i)
            elif i not in DROPPED:
                # a local, parameter or field: numbered by first occurrence, so that a consistent rename
                # changes nothing while exchanging two of them does
                out.append("v%d" % local.setdefault(i, len(local) + 1))
        elif m.group("op") is not None:
            o = m.group("op")
            if o != "=":
                out.append(o)
    return out


def block_from(src, i):
    """the balanced `{…}` starting at the first `{` at or after i (string/char literals skipped)"""
    j = src.index("{", i)
    depth, k, n = 0, j, len(src)
    while k < n:
        c = src[k]
        if c == '"':
            k += 1
            while k < n and src[k] != '"':
                k += 2 if src[k] == "\\" else 1
        elif c == "'" :
            m = re.match(r"'(?:[^'\\]|\\.[^']*)'", src[k:])
            if m:
                k += m.end() - 1
        elif c == "{":
            depth += 1
        elif c == "}":
            depth -= 1
            if depth == 0:
                return src[j:k + 1], k + 1
        k += 1
    raise LookupError("unbalanced block")


def find_fns(src, name):
    """texts of every `fn name` in src: signature (after the name) and body"""
    out = []
    for m in re.finditer(r"\bfn\s+" + re.escape(name) + r"\b", src):
        # a declaration without body (trait method) ends with `;` before any `{`
        semi, brace = src.find(";", m.end()), src.find("{", m.end())
        if brace < 0 or (0 <= semi < brace and "where" not in src[m.end():semi]):
            continue
        try:
            body, end = block_from(src, m.end())
        except (LookupError, ValueError):
            continue
        out.append(src[m.end():src.index("{", m.end())] + body)
    return out


def find_const(src, name):
    out = []
    for m in re.finditer(r"\b(?:const|static)\s+" + re.escape(name) + r"\s*:", src):
        depth, k = 0, m.end()
        while k < len(src):
            c = src[k]
            if c in "([{":
                depth += 1
            elif c in ")]}":
                depth -= 1
            elif c == ";" and depth == 0:
                break
            k += 1
        out.append(src[m.end():k])
    return out


def find_impls(src, words):
    """every `impl … {…}` block whose header contains all the given words"""
    out = []
    for m in re.finditer(r"(?m)^\s*(?:unsafe\s+)?impl\b[^{;]*\{", src):
        head = m.group(0)
        if all(re.search(r"(?<![\w])" + re.escape(w) + r"(?![\w])", head) for w in words):
            try:
                body, _ = block_from(src, m.start())
            except (LookupError, ValueError):
                continue
            out.append(head[:-1] + body)
    return out


def find_mod(src, name):
    out = []
    for m in re.finditer(r"\bmod\s+" + re.escape(name) + r"\s*\{", src):
        body, _ = block_from(src, m.start())
        out.append(body)
    return out


def find_type(src, name):
    out = []
    for m in re.finditer(r"\b(?:struct|enum)\s+" + re.escape(name) + r"\b[^;{]*\{", src):
        body, _ = block_from(src, m.start())
        out.append(body)
    return out


def expand(item):
    """name candidates of one anchor item (free text)"""
    item = item.strip()
    item = re.sub(r"\([^)]*[ <=][^)]*\)", "", item).strip()      # explanatory parentheses
    names = []
    item = re.sub(r"\s*\.\.\.$", "", item)
    m = re.match(r"^([\w:]+)\((0|_\w+)\)$", item)                 # with_month(0) -> with_month, with_month0
    if m:
        return [m.group(1), m.group(1) + m.group(2)]
    item = re.sub(r"\(\)$", "", item)
    if "/" in item and not item.startswith("impl"):               # a_b/_c/_d  and  try_weeks/days/hours
        parts = [p.strip() for p in item.split("/")]
        first = parts[0]
        names.append(first)
        for p in parts[1:]:
            if p.startswith("_"):
                names.append(first[:first.rindex("_")] + p)
            elif "_" in first and "_" not in p and not p[:1].isupper():
                names.append(first[:first.index("_") + 1] + p)
            else:
                names.append(p)
        return names
    return [item]


def resolve(api, files, item, cache):
    """[(label, [texts])] for one anchor item within the given files"""
    def src(rel):
        if rel not in cache:
            try:
                cache[rel] = strip_attrs(api.strip_comments(api.read(rel)))
            except OSError:
                cache[rel] = ""
        return cache[rel]
    found = []
    item = item.strip().rstrip(".").strip()
    if not item:
        return found
    for rel in files:
        s = src(rel)
        if not s:
            continue
        if item.startswith("impl") or item.endswith(" impls") or item.endswith(" impl"):
            body = re.sub(r"^impl\s*", "", item)
            body = re.sub(r"\s+impls?$", "", body)
            target = None
            if " for " in body:
                body, target = body.split(" for ", 1)
                target = re.match(r"[\w:]+", target.strip())
                target = target.group(0).split("::")[-1] if target else None
            for tr in re.split(r"\s*/\s*", body):
                tr = re.sub(r"<.*$", "", tr.strip())
                tr = tr.split("::")[-1]
                if not tr:
                    continue
                words = [tr] + ([target] if target else [])
                texts = find_impls(s, words)
                if texts:
                    found.append((f"{rel}:impl {' for '.join(words)}", texts))
            continue
        for cand in expand(item):
            base = cand.split("::")[-1].strip()
            if base != "*" and not re.match(r"^[A-Za-z_][\w*]*$", base):
                continue
            if base.endswith("*"):
                pre = base[:-1]
                names = sorted(set(re.findall(r"\bfn\s+(" + re.escape(pre) + r"\w*)", s)))
                for n in names:
                    texts = find_fns(s, n)
                    if texts:
                        found.append((f"{rel}:fn {n}", texts))
                continue
            texts = find_fns(s, base)
            if texts:
                found.append((f"{rel}:fn {base}", texts))
                continue
            texts = find_const(s, base)
            if texts:
                found.append((f"{rel}:const {base}", texts))
                continue
            texts = find_mod(s, base) if base.islower() else []
            if texts:
                found.append((f"{rel}:mod {base}", texts))
                continue
            texts = find_impls(s, [base]) if base[:1].isupper() else []
            ty = find_type(s, base) if base[:1].isupper() else []
            if texts or ty:
                found.append((f"{rel}:type {base}", ty + texts))
    return found


def anchors_of(prop):
    """[(files, item)] from the free-text `where` strings"""
    out = []
    for mech in prop["anchors"]["mechanism"]:
        for seg in mech["where"].split(";"):
            if not seg.strip().startswith("src/"):
                continue
            head, rest = seg.split(": ", 1) if ": " in seg else (seg, "")
            files = [f.strip() for f in re.split(r",| and ", head) if f.strip().startswith("src/")]
            # split the item list on commas that are not inside parentheses / angle brackets
            items, depth, cur = [], 0, ""
            for ch in rest:
                if ch in "(<":
                    depth += 1
                elif ch in ")>":
                    depth -= 1
                if ch == "," and depth <= 0:
                    items.append(cur); cur = ""
                else:
                    cur += ch
            items.append(cur)
            for it in items:
                it = it.strip()
                if it.startswith("mod ") :
                    it = it[4:]
                if it:
                    out.append((files, it))
            if not rest.strip():
                # a bare file (e.g. "src/naive/time/serde.rs"): every fn of the file
                for f in files:
                    out.append(([f], "*"))
    extra = os.path.join(VERIF, "tools", "anchor_extra.json")
    if os.path.exists(extra):
        for files, it in json.load(open(extra)).get(prop["id"], []):
            out.append((files if isinstance(files, list) else [files], it))
    return out


def lean_str(s):
    return '"' + s.replace("\\", "\\\\").replace('"', '\\"') + '"'


def ident(label):
    return re.sub(r"\W+", "_", label).strip("_")


# method names that std / core types also have: a call `x.map(…)` says nothing about which `map`
COMMON = {"new", "from", "into", "fmt", "next", "next_back", "clone", "eq", "ne", "cmp", "partial_cmp", "hash", "default",
          "map", "and_then", "unwrap", "expect", "ok", "err", "ok_or", "unwrap_or", "min", "max", "abs", "neg", "add", "sub", "mul",
          "div", "rem", "len", "is_empty", "contains", "first", "last", "iter", "get", "as_bytes", "as_ref", "try_from",
          "try_into", "from_str", "parse", "deref", "borrow", "to_owned", "to_string", "write", "write_str", "write_char",
          "checked_add", "checked_sub", "checked_mul", "checked_div", "checked_neg", "div_euclid", "rem_euclid", "pow", "size_hint",
          "sum", "count", "nth", "filter", "fold", "zip", "rev", "take", "skip", "find", "position", "any", "all", "insert",
          "remove", "push", "pop", "extend", "split_at", "trim", "copied", "cloned", "collect", "serialize", "deserialize",
          "visit_i64", "visit_u64", "visit_str", "visit_some", "visit_none", "visit_unit", "expecting", "error", "main", "test"}


def crate_index(api):
    """name -> file for every `fn` that is defined exactly once in the crate (unix build, tests removed)"""
    repo = os.environ.get("CHRONO_REPO", "/repo")
    root = repo + "/src"
    srcs, where = {}, {}
    for dp, _, fns in os.walk(root):
        for fn in sorted(fns):
            rel = os.path.relpath(os.path.join(dp, fn), repo)
            if not fn.endswith(".rs") or "windows" in rel or "wasm" in rel or "win_bindings" in rel or rel.endswith("tests.rs"):
                continue
            try:
                srcs[rel] = strip_attrs(api.strip_comments(api.read(rel)))
            except OSError:
                continue
            for m in re.finditer(r"\bfn\s+(\w+)\b", srcs[rel]):
                where.setdefault(m.group(1), []).append(rel)
    return srcs, {k: v[0] for k, v in where.items() if len(v) == 1 and k not in COMMON}


def closure(items, srcs, uniq):
    """crate functions with a crate-unique name that the anchored items call, transitively"""
    have = {l for l, _ in items}
    frontier = [t[:-1] for _, toks in items for t in toks if t.endswith("(") and not t.endswith("!(")]
    added, seen = {}, set()
    while frontier:
        n = frontier.pop()
        if n in seen:
            continue
        seen.add(n)
        rel = uniq.get(n)
        if rel is None:
            continue
        label = f"{rel}:fn {n}"
        if label in have or ("callee " + label) in added:
            continue
        texts = find_fns(srcs[rel], n)
        if not texts:
            continue
        toks = tokens(texts[0])
        added["callee " + label] = toks
        frontier += [t[:-1] for t in toks if t.endswith("(") and not t.endswith("!(")]
    return sorted(added.items())


def collect(api):
    props = [json.loads(l) for l in open(os.path.join(VERIF, "properties.jsonl"))]
    cache = {}
    result = {}      # pid -> [(label, tokens)]
    unresolved = {}
    srcs, uniq = crate_index(api)
    for p in props:
        seen = {}
        for files, item in anchors_of(p):
            got = resolve(api, files, item, cache)
            if not got:
                unresolved.setdefault(p["id"], []).append(f"{','.join(files)}: {item}")
            for label, texts in got:
                if label in seen:
                    continue
                toks = []
                for i, t in enumerate(texts):
                    if i:
                        toks.append("§")
                    toks += tokens(t)
                seen[label] = toks
        direct = sorted(seen.items())
        result[p["id"]] = direct + closure(direct, srcs, uniq)
    return result, unresolved


def run(api):
    result, unresolved = collect(api)
    text = api.hdr + "namespace Chrono.Extracted.Anchors\n\n"
    for pid, items in result.items():
        for label, toks in items:
            text += f"/-- {label} -/\ndef {pid}_{ident(label)} : List String := [" + ", ".join(lean_str(t) for t in toks) + "]\n"
        text += "\n"
    text += "end Chrono.Extracted.Anchors\n"
    api.emit("Anchors.lean", text)
    api.keep("anchors", {pid: {"items": [l for l, _ in items], "tokens": sum(len(t) for _, t in items),
                               "unresolved": unresolved.get(pid, [])} for pid, items in result.items()})
