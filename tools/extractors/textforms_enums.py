"""C09 (audit gap L3): the index tables behind the numeric item codes of Extracted/TextForms.lean.

tools/extractors/textforms.py writes a numeric item as `[2, index in NUMERIC, index in PAD]` and a
fixed item as `[3, index in FIXED]`; the model's `TextForms.itemCode` uses the positions in
`Numeric.all` / `Fixed.all` / `padIdx`.  This plugin emits
  * TF_NUMERIC_INDEX / TF_FIXED_INDEX / TF_PAD_INDEX — the tables textforms.py indexes into (read from
    that module, not copied), as byte strings of the variant names;
  * TF_NUMERIC_ENUM / TF_FIXED_ENUM / TF_PAD_ENUM — the variants of `pub enum Numeric / Fixed / Pad`
    in src/format/mod.rs in source order (the tuple variant `Internal(..)` is not a name and is skipped),
so that `Chrono.Props.C09.item_codes_faithful` can state that all three orders coincide with the model's
enumeration and that the code is injective.
Output: lean/Chrono/Extracted/TextFormsEnums.lean.
"""
import importlib.util
import os
import re


def _textforms():
    p = os.path.join(os.path.dirname(os.path.abspath(__file__)), "textforms.py")
    spec = importlib.util.spec_from_file_location("extractor_textforms_tables", p)
    mod = importlib.util.module_from_spec(spec)
    spec.loader.exec_module(mod)
    return mod


def enum_names(src, name):
    m = re.search(r"\bpub enum " + re.escape(name) + r"\s*\{(.*?)\n\}", src, re.S)
    if not m:
        raise LookupError("enum " + name)
    body = re.sub(r"#\[[^\]]*\]", "", m.group(1))
    vs = re.findall(r"\b([A-Z][A-Za-z0-9]*)\b\s*,", body)
    if not vs:
        raise LookupError("no variants")
    return vs


def previous():
    p = os.path.join(os.path.dirname(os.path.dirname(os.path.dirname(os.path.abspath(__file__)))),
                     "lean", "Chrono", "Extracted", "TextFormsEnums.lean")
    prev = {}
    try:
        for m in re.finditer(r"def (TF_\w+_ENUM) : List \(List Nat\) := \[(.*?)\]\n", open(p).read()):
            prev[m.group(1)] = [bytes(int(x) for x in grp.split(",") if x.strip()).decode("utf-8")
                                for grp in re.findall(r"\[([^\[\]]*)\]", m.group(2))]
    except OSError:
        pass
    return prev


def run(api):
    tf = _textforms()
    prev = previous()
    text = api.hdr + "namespace Chrono.Extracted\n\n"

    def put(key, names):
        nonlocal text
        text += f"def {key} : List (List Nat) := [" + ", ".join(
            "[" + ", ".join(str(b) for b in n.encode("utf-8")) + "]" for n in names) + "]\n"

    put("TF_NUMERIC_INDEX", tf.NUMERIC)
    put("TF_FIXED_INDEX", tf.FIXED)
    put("TF_PAD_INDEX", tf.PAD)
    src = None
    for key, en in [("TF_NUMERIC_ENUM", "Numeric"), ("TF_FIXED_ENUM", "Fixed"), ("TF_PAD_ENUM", "Pad")]:
        def get(en=en):
            nonlocal src
            if src is None:
                src = api.strip_comments(api.read("src/format/mod.rs"))
            return enum_names(src, en)
        val = api.section(key, "src/format/mod.rs", get, prev.get(key))
        if val is not None:
            put(key, val)
    text += "\nend Chrono.Extracted\n"
    api.emit("TextFormsEnums.lean", text)
