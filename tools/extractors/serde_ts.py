"""C20: what the sixteen serde timestamp modules call, and with which integer literals.

The module bodies repeat one divide/remainder conversion with small variations (unit, signedness, optional
wrapper) and use bare literals.  For every module the translator records
  * `serialize`: the timestamp accessor it calls (code 0 = timestamp, 1 = timestamp_millis,
    2 = timestamp_micros, 3 = timestamp_nanos_opt),
  * plain modules, `visit_i64` / `visit_u64`: the constructor called (0 = from_timestamp,
    1 = from_timestamp_millis, 2 = from_timestamp_micros), 1 if Euclidean division is used else 0, then the
    integer literals of the body in source order (`i64::MAX` is recorded as its value),
  * `_option` modules, `visit_some`: the inner visitor (0 = Seconds, 1 = MilliSeconds, 2 = MicroSeconds,
    3 = NanoSeconds).
`Chrono.Props.C20.literals_ok` states what these lists are for the code the model was written against; a
changed unit, divisor, bound, accessor or inner visitor makes that theorem fail on the re-extracted data.
Output: lean/Chrono/Extracted/SerdeLits.lean.
"""
import os
import re

FILES = {"utc": "src/datetime/serde.rs", "naive": "src/naive/datetime/serde.rs"}
UNITS = ["seconds", "milliseconds", "microseconds", "nanoseconds"]
ACC = {"timestamp": 0, "timestamp_millis": 1, "timestamp_micros": 2, "timestamp_nanos_opt": 3}
CTOR = {"from_timestamp": 0, "from_timestamp_millis": 1, "from_timestamp_micros": 2}
VIS = {"SecondsTimestampVisitor": 0, "MilliSecondsTimestampVisitor": 1, "MicroSecondsTimestampVisitor": 2,
       "NanoSecondsTimestampVisitor": 3}


def block_after(src, start):
    i = src.index("{", start)
    depth, j = 0, i
    while j < len(src):
        if src[j] == "{":
            depth += 1
        elif src[j] == "}":
            depth -= 1
            if depth == 0:
                return src[i:j + 1]
        j += 1
    raise LookupError("unbalanced block")


def one(pat, text, what):
    ms = list(re.finditer(pat, text))
    if len(ms) != 1:
        raise LookupError(f"{what}: {len(ms)} matches")
    return ms[0]


def fn_block(mod, name):
    m = one(r"fn " + name + r"\b", mod, name)
    return block_after(mod, m.start())


def literals(text):
    out = []
    for m in re.finditer(r"(?<![\w.])(?:(\d[\d_]*)(?:u8|u16|u32|u64|i8|i16|i32|i64|usize)?|(i64::MAX))(?![\w.])", text):
        out.append(int(m.group(1).replace("_", "")) if m.group(1) is not None else 2**63 - 1)
    return out


def accessor(body):
    m = one(r"\.(timestamp_nanos_opt|timestamp_micros|timestamp_millis|timestamp)\(\)", body, "accessor")
    return [ACC[m.group(1)]]


def visit(body):
    m = one(r"DateTime::(from_timestamp_millis|from_timestamp_micros|from_timestamp)\(", body, "constructor")
    eu = 1 if ("div_euclid" in body and "rem_euclid" in body) else 0
    return [CTOR[m.group(1)], eu] + literals(body)


def inner(body):
    m = one(r"\b((?:Nano|Micro|Milli)?SecondsTimestampVisitor)\b", body, "inner visitor")
    return [VIS[m.group(1)]]


def previous():
    p = os.path.join(os.path.dirname(os.path.dirname(os.path.dirname(os.path.abspath(__file__)))),
                     "lean", "Chrono", "Extracted", "SerdeLits.lean")
    prev = {}
    try:
        for m in re.finditer(r"def (SD_\w+) : List Int := \[([^\]]*)\]", open(p).read()):
            prev[m.group(1)] = [int(x) for x in m.group(2).split(",") if x.strip()]
    except OSError:
        pass
    return prev


def run(api):
    prev = previous()
    text = api.hdr + "namespace Chrono.Extracted\n\n"
    for tg, rel in FILES.items():
        src = api.strip_comments(api.read(rel))
        # drop the test module so that its literals never count
        cut = src.find("#[cfg(test)]")
        if cut >= 0:
            src = src[:cut]
        for unit in UNITS:
            for opt in ["", "_option"]:
                modname = f"ts_{unit}{opt}"
                items = [("ser", "serialize", accessor)]
                items += [("some", "visit_some", inner)] if opt else [("i64", "visit_i64", visit), ("u64", "visit_u64", visit)]
                for tag, fname, fn in items:
                    key = f"SD_{tg}_{modname}_{tag}"
                    def get(modname=modname, fname=fname, fn=fn):
                        m = one(r"pub mod " + modname + r"\s*\{", src, modname)
                        mod = block_after(src, m.start())
                        return fn(fn_block(mod, fname))
                    val = api.section(key, rel, get, prev.get(key))
                    if val is None:
                        continue
                    text += f"def {key} : List Int := [{', '.join(str(v) for v in val)}]\n"
    text += "\nend Chrono.Extracted\n"
    api.emit("SerdeLits.lean", text)
