"""C20: what the sixteen serde timestamp modules call, and with which integer literals.

The module bodies repeat one divide/remainder conversion with small variations (unit, signedness, optional
wrapper) and use bare literals.  For every module the translator records
  * `serialize`: the timestamp accessor it calls (code 0 = timestamp, 1 = timestamp_millis,
    2 = timestamp_micros, 3 = timestamp_nanos_opt),
  * plain modules, `visit_i64` / `visit_u64`: the constructor called (0 = from_timestamp,
    1 = from_timestamp_millis, 2 = from_timestamp_micros), 1 if Euclidean division is used else 0, then the
    integer literals of the body in source order (`i64::MAX` is recorded as its value),
  * `_option` modules, `visit_some`: the inner visitor (0 = Seconds, 1 = MilliSeconds, 2 = MicroSeconds,
    3 = NanoSeconds).
`Chrono.Props.C20.literals_ok` states what these lists are for the code the model was written against; a
changed unit, divisor, bound, accessor or inner visitor makes that theorem fail on the re-extracted data.
Output: lean/Chrono/Extracted/SerdeLits.lean.

Second output (audit2 gap 2), lean/Chrono/Extracted/SerdeBodies.lean: the COMPLETE shape of every body as a term
of the types of lean/Chrono/Model/SerdeTsCode.lean.  `visit_i64` / `visit_u64` are parsed with a small
recursive-descent parser of Rust integer expressions (method call > `as` > `* / %` > comparison), so the operator
between two literals (`/` vs `%`), every cast, `div_euclid` vs `rem_euclid`, `>` vs `>=`, the constructor and the
presence of `.map(|dt| dt.naive_utc())` are all recorded; `serialize`, `deserialize`, `visit_some`, `visit_none`,
`visit_unit` are matched as a whole against the one shape they have (which `serialize_*` / `deserialize_*` method is
requested, which accessor, `.and_utc()`, `.ok_or(..)?`, which visitor, which `.map(..)` follows).  A body that
is not of these shapes makes the extraction of that item fail (reported stale, the check fails).
`Chrono.Props.C20.ts_bodies_ok` proves that the extracted terms, given their meaning by
lean/Chrono/Model/SerdeTsEval.lean, are the functions of the model.
"""
import os
import re

FILES = {"utc": "src/datetime/serde.rs", "naive": "src/naive/datetime/serde.rs"}
UNITS = ["seconds", "milliseconds", "microseconds", "nanoseconds"]
ACC = {"timestamp": 0, "timestamp_millis": 1, "timestamp_micros": 2, "timestamp_nanos_opt": 3}
CTOR = {"from_timestamp": 0, "from_timestamp_millis": 1, "from_timestamp_micros": 2}
VIS = {"SecondsTimestampVisitor": 0, "MilliSecondsTimestampVisitor": 1, "MicroSecondsTimestampVisitor": 2,
       "NanoSecondsTimestampVisitor": 3}


def block_after(src, start):
    i = src.index("{", start)
    depth, j = 0, i
    while j < len(src):
        if src[j] == "{":
            depth += 1
        elif src[j] == "}":
            depth -= 1
            if depth == 0:
                return src[i:j + 1]
        j += 1
    raise LookupError("unbalanced block")


def one(pat, text, what):
    ms = list(re.finditer(pat, text))
    if len(ms) != 1:
        raise LookupError(f"{what}: {len(ms)} matches")
    return ms[0]


def fn_block(mod, name):
    m = one(r"fn " + name + r"\b", mod, name)
    return block_after(mod, m.start())


def literals(text):
    out = []
    for m in re.finditer(r"(?<![\w.])(?:(\d[\d_]*)(?:u8|u16|u32|u64|i8|i16|i32|i64|usize)?|(i64::MAX))(?![\w.])", text):
        out.append(int(m.group(1).replace("_", "")) if m.group(1) is not None else 2**63 - 1)
    return out


def accessor(body):
    m = one(r"\.(timestamp_nanos_opt|timestamp_micros|timestamp_millis|timestamp)\(\)", body, "accessor")
    return [ACC[m.group(1)]]


def visit(body):
    m = one(r"DateTime::(from_timestamp_millis|from_timestamp_micros|from_timestamp)\(", body, "constructor")
    eu = 1 if ("div_euclid" in body and "rem_euclid" in body) else 0
    return [CTOR[m.group(1)], eu] + literals(body)


def inner(body):
    m = one(r"\b((?:Nano|Micro|Milli)?SecondsTimestampVisitor)\b", body, "inner visitor")
    return [VIS[m.group(1)]]


# ---------------------------------------------------------------- full bodies (SerdeBodies.lean)

TOK = re.compile(r"\s*(?:(\d[\d_]*)(u8|u16|u32|u64|i8|i16|i32|i64|usize)?|([A-Za-z_]\w*)|(::|>=|<=|==|!=|\|\||[-+*/%<>(){}.,|&?!=;]))")


def tokens(text):
    out, i = [], 0
    text = text.strip()
    while i < len(text):
        m = TOK.match(text, i)
        if not m or m.end() == i:
            raise LookupError("cannot tokenize at " + text[i:i + 20])
        if m.group(1) is not None:
            out.append(("int", int(m.group(1).replace("_", ""))))
        elif m.group(3) is not None:
            out.append(("id", m.group(3)))
        else:
            out.append(("p", m.group(4)))
        i = m.end()
    return out


class P:
    """parser of a visit_i64 / visit_u64 body; produces a Lean term of type `Code.Visit`"""

    def __init__(self, toks):
        self.t, self.i = toks, 0

    def peek(self, k=0):
        return self.t[self.i + k] if self.i + k < len(self.t) else ("eof", None)

    def eat(self, kind, val=None):
        tk = self.peek()
        if tk[0] != kind or (val is not None and tk[1] != val):
            raise LookupError(f"expected {val or kind}, found {tk[1]!r} at token {self.i}")
        self.i += 1
        return tk[1]

    def eat_seq(self, text):
        for kind, val in tokens(text):
            self.eat(kind, val)

    def at(self, kind, val):
        return self.peek() == (kind, val)

    def primary(self):
        tk = self.peek()
        if tk == ("id", "value"):
            self.i += 1
            return ".value"
        if tk[0] == "int":
            self.i += 1
            return f"(.lit {tk[1]})"
        if tk == ("id", "i64"):
            self.eat_seq("i64::MAX")
            return ".i64Max"
        if tk == ("p", "("):
            self.i += 1
            e = self.mul()
            self.eat("p", ")")
            return e
        raise LookupError(f"unexpected token {tk[1]!r} in expression")

    def postfix(self):
        e = self.primary()
        while self.at("p", "."):
            name = self.peek(1)
            if name not in (("id", "div_euclid"), ("id", "rem_euclid")):
                raise LookupError(f"unknown method {name[1]!r} in expression")
            self.i += 2
            self.eat("p", "(")
            a = self.mul()
            self.eat("p", ")")
            e = f"(.{'divEuclid' if name[1] == 'div_euclid' else 'remEuclid'} {e} {a})"
        return e

    def cast(self):
        e = self.postfix()
        while self.at("id", "as"):
            self.i += 1
            ty = self.eat("id")
            if ty not in ("i64", "u64", "u32"):
                raise LookupError("cast to " + ty)
            e = f"(.cast {e} .{ty})"
        return e

    def mul(self):
        e = self.cast()
        while self.peek() in (("p", "*"), ("p", "/"), ("p", "%")):
            op = {"*": "mul", "/": "div", "%": "rem"}[self.peek()[1]]
            self.i += 1
            e = f"(.{op} {e} {self.cast()})"
        return e

    def build(self):
        self.eat_seq("DateTime::")
        c = self.eat("id")
        if c not in CTOR:
            raise LookupError("constructor " + c)
        self.eat("p", "(")
        args = [self.mul()]
        while self.at("p", ","):
            self.i += 1
            if self.at("p", ")"):
                break
            args.append(self.mul())
        self.eat("p", ")")
        mp = "false"
        if self.peek(1) == ("id", "map"):
            self.eat_seq(".map(|dt| dt.naive_utc())")
            mp = "true"
        self.eat_seq(".ok_or_else(|| invalid_ts(value))")
        return f"(.build .{c} [{', '.join(args)}] {mp})"

    def stmt(self):
        if self.at("id", "if"):
            self.i += 1
            a = self.mul()
            op = self.eat("p")
            if op not in (">", ">=", "<", "<="):
                raise LookupError("comparison " + op)
            b = self.mul()
            self.eat_seq("{ Err(invalid_ts(value)) } else {")
            els = self.stmt()
            self.eat("p", "}")
            return f"(.refuseIf .{ {'>': 'gt', '>=': 'ge', '<': 'lt', '<=': 'le'}[op] } {a} {b} {els})"
        return self.build()

    def body(self):
        self.eat("p", "{")
        v = self.stmt()
        self.eat("p", "}")
        if self.peek()[0] != "eof":
            raise LookupError("trailing tokens")
        return v


def visit_term(body):
    return P(tokens(body)).body()


def squeeze(body):
    return re.sub(r"\s+", "", body)


OKOR = r'(\.ok_or\(ser::Error::custom\("[^"]*",?\),?\)\?)?'
CALL = r"serializer\.(\w+)\(&?dt(\.and_utc\(\))?\.(timestamp\w*)\(\)" + OKOR + r",?\)"


def ser_call(m):
    if m.group(3) not in ACC:
        raise LookupError("accessor " + m.group(3))
    b = lambda x: "true" if x else "false"
    return f"{{ m := .{m.group(1)}, andUtc := {b(m.group(2))}, acc := .{m.group(3)}, okOrTry := {b(m.group(4))} }}"


def ser_term(body):
    s = squeeze(body)
    m = re.fullmatch(r"\{" + CALL + r"\}", s)
    if m:
        return f".plain {ser_call(m)}"
    m = re.fullmatch(r"\{match\*opt\{Some\(refdt\)=>" + CALL + r",None=>serializer\.(\w+)\(\),?\}\}", s)
    if m:
        return f".matchOpt {ser_call(m)} .{m.group(5)}"
    raise LookupError("serialize body of unknown shape")


POSTS = {"": "none", ".map(Some)": "mapSome", ".map(|dt|dt.with_timezone(&Utc))": "mapWithTzUtc",
         ".map(|opt|opt.map(|dt|dt.with_timezone(&Utc)))": "mapOptMapWithTzUtc"}


def de_term(body):
    m = re.fullmatch(r"\{d\.(deserialize_\w+)\((\w+)\)(.*)\}", squeeze(body))
    if not m or m.group(3) not in POSTS:
        raise LookupError("deserialize body of unknown shape")
    return f"{{ m := .{m.group(1)}, visitor := .{m.group(2)}, post := .{POSTS[m.group(3)]} }}"


def unitish_term(body):
    if squeeze(body) != "{Ok(None)}":
        raise LookupError("visit_none / visit_unit body of unknown shape")
    return ".okNone"


def impl_for(mod):
    """the struct whose `de::Visitor` impl sits in this module"""
    m = one(r"impl(?:<'de>)?\s+de::Visitor<'(?:_|de)>\s+for\s+(\w+)", mod, "Visitor impl")
    return "." + m.group(1)


def previous_bodies():
    p = os.path.join(os.path.dirname(os.path.dirname(os.path.dirname(os.path.abspath(__file__)))),
                     "lean", "Chrono", "Extracted", "SerdeBodies.lean")
    prev = {}
    try:
        for m in re.finditer(r"^def (SB_\w+) : Code\.\w+ := (.*)$", open(p).read(), re.M):
            prev[m.group(1)] = m.group(2)
    except OSError:
        pass
    return prev


def run_bodies(api):
    prev = previous_bodies()
    text = api.hdr + "import Chrono.Model.SerdeTsCode\n\nnamespace Chrono.Extracted\nopen Chrono.M.Serde\n\n"
    for tg, rel in FILES.items():
        src = api.strip_comments(api.read(rel))
        cut = src.find("#[cfg(test)]")
        if cut >= 0:
            src = src[:cut]
        for unit in UNITS:
            for opt in ["", "_option"]:
                modname = f"ts_{unit}{opt}"
                items = [("ser", "serialize", "Ser", ser_term), ("de", "deserialize", "De", de_term)]
                if opt:
                    items += [("some", "visit_some", "De", de_term), ("none", "visit_none", "Unitish", unitish_term),
                              ("unit", "visit_unit", "Unitish", unitish_term)]
                else:
                    items += [("i64", "visit_i64", "Visit", visit_term), ("u64", "visit_u64", "Visit", visit_term)]
                items += [("impl", None, "Vis", None)]
                for tag, fname, ty, fn in items:
                    key = f"SB_{tg}_{modname}_{tag}"
                    def get(modname=modname, fname=fname, fn=fn):
                        m = one(r"pub mod " + modname + r"\s*\{", src, modname)
                        mod = block_after(src, m.start())
                        if fname is None:
                            return impl_for(mod)
                        return fn(fn_block(mod, fname))
                    val = api.section(key, rel, get, prev.get(key))
                    if val is None:
                        continue
                    text += f"def {key} : Code.{ty} := {val}\n"
    text += "\nend Chrono.Extracted\n"
    api.emit("SerdeBodies.lean", text)


def previous():
    p = os.path.join(os.path.dirname(os.path.dirname(os.path.dirname(os.path.abspath(__file__)))),
                     "lean", "Chrono", "Extracted", "SerdeLits.lean")
    prev = {}
    try:
        for m in re.finditer(r"def (SD_\w+) : List Int := \[([^\]]*)\]", open(p).read()):
            prev[m.group(1)] = [int(x) for x in m.group(2).split(",") if x.strip()]
    except OSError:
        pass
    return prev


def run(api):
    prev = previous()
    text = api.hdr + "namespace Chrono.Extracted\n\n"
    for tg, rel in FILES.items():
        src = api.strip_comments(api.read(rel))
        # drop the test module so that its literals never count
        cut = src.find("#[cfg(test)]")
        if cut >= 0:
            src = src[:cut]
        for unit in UNITS:
            for opt in ["", "_option"]:
                modname = f"ts_{unit}{opt}"
                items = [("ser", "serialize", accessor)]
                items += [("some", "visit_some", inner)] if opt else [("i64", "visit_i64", visit), ("u64", "visit_u64", visit)]
                for tag, fname, fn in items:
                    key = f"SD_{tg}_{modname}_{tag}"
                    def get(modname=modname, fname=fname, fn=fn):
                        m = one(r"pub mod " + modname + r"\s*\{", src, modname)
                        mod = block_after(src, m.start())
                        return fn(fn_block(mod, fname))
                    val = api.section(key, rel, get, prev.get(key))
                    if val is None:
                        continue
                    text += f"def {key} : List Int := [{', '.join(str(v) for v in val)}]\n"
    text += "\nend Chrono.Extracted\n"
    api.emit("SerdeLits.lean", text)
    run_bodies(api)
