"""C11: code of the RFC 2822 reader / writer re-extracted as DATA on every run (the data-extraction variant
of the audit's gap G1; the zone table is done the same way by rfc2822.py):

* `YEAR_RULE_2822` — the arms of `match (yearlen, year) { … }` in `parse_rfc2822` (src/format/parse.rs), in
  source order: (digit count or `_`, `lo..=hi` or `_`, the `year += N` of the arm body, 0 for an empty body).
  The extractor refuses (stale) any arm it cannot read, so the list is the WHOLE match.
* `YEAR_GUARD_2822` — the `(lo..=hi).contains(&year)` guard of `write_rfc2822` (src/format/formatting.rs).
* `WRITE_2822` — the output statements of `write_rfc2822` after the guard, in source order, as
  (opcode, literal arguments); every statement of the body must be recognised, otherwise stale:
    0 `w.write_str("…")` / `w.write_char('…')`           args = the bytes written
    1 `w.write_str(short_weekdays(english)[dt.weekday().num_days_from_sunday() as usize])`
    2 `if day < A { w.write_char((b'0' + day as u8) as char) } else { write_hundreds(w, day as u8) }`  args [A, b'0']
    3 `w.write_str(short_months(english)[dt.month0() as usize])`
    4 `write_hundreds(w, (year / A) as u8)`               args [A]
    5 `write_hundreds(w, (year % A) as u8)`               args [A]
    6 `write_hundreds(w, hour as u8)`   7 `… min as u8`
    8 `write_hundreds(w, sec as u8)` after `let sec = sec + dt.nanosecond() / A;`   args [A]
    9 `OffsetFormat { precision, colons, allow_zulu, padding }.format(w, off)`   args = the four fields coded
* `WRITE_HUNDREDS` — `write_hundreds`: (limit of `n >= L`, `b'0'`, the divisor of `n / D`, the modulus of `n % M`).

`Chrono.Props.C11.year_table_ok` / `writer_table_ok` / `hundreds_table_ok` state that these data, interpreted,
are the specification's year rule resp. the hand-written models `Format.write_rfc2822` / `Format.write_hundreds`:
a changed arm, literal, separator or statement order makes those theorems fail on the re-extracted data.
Output: lean/Chrono/Extracted/Rfc2822Rules.lean.
"""
import os
import re

PARSE = "src/format/parse.rs"
FMT = "src/format/formatting.rs"

PREC = {"Hours": 0, "Minutes": 1, "Seconds": 2, "OptionalMinutes": 3, "OptionalSeconds": 4, "OptionalMinutesAndSeconds": 5}
COLONS = {"None": 0, "Colon": 1, "Maybe": 2}
PAD = {"None": 0, "Zero": 1, "Space": 2}


def body_after(src, head):
    i = src.index(head)
    j = src.index("{", i)
    depth, k = 0, j
    while k < len(src):
        if src[k] == "{":
            depth += 1
        elif src[k] == "}":
            depth -= 1
            if depth == 0:
                return src[j + 1:k]
        k += 1
    raise LookupError("unbalanced body after " + head)


def num(t):
    return int(t.replace("_", ""))


def rust_str_bytes(t):
    out = []
    i = 0
    while i < len(t):
        if t[i] == "\\":
            esc = {"n": 10, "t": 9, "\\": 92, "'": 39, '"': 34, "0": 0, "r": 13}
            if t[i + 1] not in esc:
                raise LookupError("escape " + t[i:i + 2])
            out.append(esc[t[i + 1]])
            i += 2
        else:
            out.extend(t[i].encode("utf-8"))
            i += 1
    return out


def year_rule(src):
    fn = body_after(src, "fn parse_rfc2822<")
    body = body_after(fn, "match (yearlen, year)")
    arm = re.compile(r"\(\s*(\d+|_)\s*,\s*(?:(\d+)\s*\.\.=\s*(\d+)|(_))\s*\)\s*=>\s*\{\s*(?:year\s*\+=\s*([\d_]+)\s*;)?\s*\}\s*,?")
    out = []
    pos = 0
    body_s = body.strip()
    while pos < len(body_s):
        m = arm.match(body_s, pos)
        if not m:
            raise LookupError("unreadable arm of the year match at: " + body_s[pos:pos + 40])
        ln = None if m.group(1) == "_" else int(m.group(1))
        rng = None if m.group(4) else (int(m.group(2)), int(m.group(3)))
        add = num(m.group(5)) if m.group(5) else 0
        out.append((ln, rng, add))
        pos = m.end()
        while pos < len(body_s) and body_s[pos].isspace():
            pos += 1
    if not out:
        raise LookupError("no arms")
    # what the match is applied to and what is done with the result
    flat = re.sub(r"\s+", " ", fn)
    for need in ["let prevlen = s.len();", "let mut year = try_consume!(scan::number(s, 2, usize::MAX));",
                 "let yearlen = prevlen - s.len();", "parsed.set_year(year)?;"]:
        if need not in flat:
            raise LookupError("context of the year match changed: " + need)
    return out


def writer(src):
    body = body_after(src, "fn write_rfc2822(")
    flat = re.sub(r"\s+", " ", body).strip()
    pats = [
        ("year", r"let year = dt\.year\(\);"),
        ("guard", r"if !\(\s*(-?[\d_]+)\s*\.\.=\s*(-?[\d_]+)\s*\)\.contains\(&year\) \{ return Err\(fmt::Error\); \}"),
        ("english", r"let english = default_locale\(\);"),
        ("wd", r"w\.write_str\(short_weekdays\(english\)\[dt\.weekday\(\)\.num_days_from_sunday\(\) as usize\]\)\?;"),
        ("mon", r"w\.write_str\(short_months\(english\)\[dt\.month0\(\) as usize\]\)\?;"),
        ("str", r"w\.write_str\(\"((?:[^\"\\]|\\.)*)\"\)\?;"),
        ("chr", r"w\.write_char\('((?:[^'\\]|\\.)*)'\)\?;"),
        ("daylet", r"let day = dt\.day\(\);"),
        ("day", r"if day < ([\d_]+) \{ w\.write_char\(\(b'(.)' \+ day as u8\) as char\)\?; \} else \{ write_hundreds\(w, day as u8\)\?; \}"),
        ("ydiv", r"write_hundreds\(w, \(year / ([\d_]+)\) as u8\)\?;"),
        ("ymod", r"write_hundreds\(w, \(year % ([\d_]+)\) as u8\)\?;"),
        ("hms", r"let \(hour, min, sec\) = dt\.time\(\)\.hms\(\);"),
        ("hour", r"write_hundreds\(w, hour as u8\)\?;"),
        ("min", r"write_hundreds\(w, min as u8\)\?;"),
        ("seclet", r"let sec = sec \+ dt\.nanosecond\(\) / ([\d_]+);"),
        ("sec", r"write_hundreds\(w, sec as u8\)\?;"),
        ("off", r"OffsetFormat \{ precision: OffsetPrecision::(\w+), colons: Colons::(\w+), allow_zulu: (true|false), padding: Pad::(\w+), \} \.format\(w, off\)$"),
    ]
    pats = [(k, re.compile(p)) for k, p in pats]
    steps, guard, seen = [], None, []
    leap_div = None
    pos = 0
    while pos < len(flat):
        for k, p in pats:
            m = p.match(flat, pos)
            if m:
                break
        else:
            raise LookupError("unreadable statement of write_rfc2822 at: " + flat[pos:pos + 60])
        seen.append(k)
        if k == "guard":
            guard = (num(m.group(1)), num(m.group(2)))
        elif k == "wd":
            steps.append((1, []))
        elif k == "mon":
            steps.append((3, []))
        elif k in ("str", "chr"):
            steps.append((0, rust_str_bytes(m.group(1))))
        elif k == "day":
            steps.append((2, [num(m.group(1)), ord(m.group(2))]))
        elif k == "ydiv":
            steps.append((4, [num(m.group(1))]))
        elif k == "ymod":
            steps.append((5, [num(m.group(1))]))
        elif k == "hour":
            steps.append((6, []))
        elif k == "min":
            steps.append((7, []))
        elif k == "seclet":
            leap_div = num(m.group(1))
        elif k == "sec":
            if leap_div is None:
                raise LookupError("`sec` written before the leap-second adjustment")
            steps.append((8, [leap_div]))
        elif k == "off":
            steps.append((9, [PREC[m.group(1)], COLONS[m.group(2)], 1 if m.group(3) == "true" else 0, PAD[m.group(4)]]))
        pos = m.end()
        while pos < len(flat) and flat[pos] == " ":
            pos += 1
    # binding order: every name is bound before use, the guard comes before any output
    def before(a, b):
        return a in seen and b in seen and seen.index(a) < seen.index(b)
    first_out = min(seen.index(k) for k in seen if k not in ("year", "guard", "english", "daylet", "hms", "seclet"))
    if guard is None or not before("year", "guard") or seen.index("guard") > first_out:
        raise LookupError("year guard missing or not in front of the output")
    for a, b in [("english", "wd"), ("english", "mon"), ("daylet", "day"), ("hms", "hour"), ("hms", "min"), ("hms", "seclet"), ("seclet", "sec")]:
        if not before(a, b):
            raise LookupError(f"binding order changed: {a} / {b}")
    if seen.count("hms") != 1 or seen.count("seclet") != 1 or seen.count("daylet") != 1 or seen.count("year") != 1:
        raise LookupError("a binding occurs more than once")
    if seen[-1] != "off":
        raise LookupError("the offset is not the last statement")
    return guard, steps


def hundreds(src):
    body = body_after(src, "fn write_hundreds(")
    flat = re.sub(r"\s+", " ", body).strip()
    m = re.fullmatch(
        r"if n >= ([\d_]+) \{ return Err\(fmt::Error\); \} let tens = b'(.)' \+ n / ([\d_]+); let ones = b'(.)' \+ n % ([\d_]+); "
        r"w\.write_char\(tens as char\)\?; w\.write_char\(ones as char\)", flat)
    if not m:
        raise LookupError("write_hundreds reshaped: " + flat[:80])
    if m.group(2) != m.group(4):
        raise LookupError("two different digit bases")
    return (num(m.group(1)), ord(m.group(2)), num(m.group(3)), num(m.group(5)))


def previous():
    p = os.path.join(os.path.dirname(os.path.dirname(os.path.dirname(os.path.abspath(__file__)))),
                     "lean", "Chrono", "Extracted", "Rfc2822Rules.lean")
    try:
        return open(p).read()
    except OSError:
        return None


def opt(v, f=str):
    return "none" if v is None else "some " + f(v)


def run(api):
    psrc = api.strip_comments(api.read(PARSE))
    fsrc = api.strip_comments(api.read(FMT))
    sentinel = object()
    yr = api.section("YEAR_RULE_2822", PARSE, lambda: year_rule(psrc), sentinel)
    wr = api.section("WRITE_2822", FMT, lambda: writer(fsrc), sentinel)
    hu = api.section("WRITE_HUNDREDS", FMT, lambda: hundreds(fsrc), sentinel)
    if yr is sentinel or wr is sentinel or hu is sentinel:
        prev = previous()        # code reshaped: keep the snapshot (reported stale)
        if prev is not None:
            api.emit("Rfc2822Rules.lean", prev)
        return
    guard, steps = wr
    t = api.hdr + "namespace Chrono.Extracted\n\n"
    t += "/-- the arms of `match (yearlen, year)` in `parse_rfc2822`, in source order: (digit count or `_`,\n"
    t += "`lo..=hi` or `_`, the `year += N` of the arm) -/\n"
    t += "def YEAR_RULE_2822 : List (Option Nat × Option (Int × Int) × Int) := [" + ", ".join(
        "(" + opt(ln) + ", " + opt(rng, lambda r: f"({r[0]}, {r[1]})") + ", " + str(add) + ")" for ln, rng, add in yr) + "]\n\n"
    t += "/-- `write_rfc2822`: the years it writes, `(lo..=hi).contains(&year)` -/\n"
    t += f"def YEAR_GUARD_2822 : Int × Int := ({guard[0]}, {guard[1]})\n\n"
    t += "/-- `write_rfc2822`: its output statements in source order, (opcode, literal arguments); see\n"
    t += "tools/extractors/rfc2822_rules.py for the opcodes -/\n"
    t += "def WRITE_2822 : List (Nat × List Int) := [" + ", ".join(
        "(" + str(op) + ", [" + ", ".join(str(a) for a in args) + "])" for op, args in steps) + "]\n\n"
    t += "/-- `write_hundreds`: (limit of `n >= L`, `b'0'`, divisor of the tens, modulus of the ones) -/\n"
    t += f"def WRITE_HUNDREDS : Int × Int × Int × Int := ({hu[0]}, {hu[1]}, {hu[2]}, {hu[3]})\n"
    t += "\nend Chrono.Extracted\n"
    api.emit("Rfc2822Rules.lean", t)
