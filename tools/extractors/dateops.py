"""C08: data the month-stepping / field-replacement model uses, read from the current Rust sources:
the month-length array of `NaiveDate::diff_months` (with the position of the `feb_days` cell and the
three literals of `if flags.ndays() == 366 { 29 } else { 28 }`), the arms of `Month::num_days`
(with the two literals of the February arm), the upper bound of `with_ordinal`, the divisor of
`Datelike::quarter`.  Emits lean/Chrono/Extracted/DateOps.lean.  If an item cannot be located the
committed file is left as it is and the item is reported stale."""
import re

MO = ["January", "February", "March", "April", "May", "June", "July", "August", "September", "October",
      "November", "December"]


def run(api):
    date = api.strip_comments(api.read("src/naive/date/mod.rs"))
    month = api.strip_comments(api.read("src/month.rs"))
    traits = api.strip_comments(api.read("src/traits.rs"))

    def diff_body():
        return re.search(r"const fn diff_months\(self, months: i32\).*?\n    \}", date, re.S).group(0)

    def dm_days():
        m = re.search(r"let days = \[(.*?)\];", diff_body(), re.S)
        toks = [t.strip() for t in m.group(1).split(",") if t.strip()]
        assert len(toks) == 12
        feb = [i for i, t in enumerate(toks) if not t.isdigit()]
        assert len(feb) == 1 and toks[feb[0]] == "feb_days"
        return [[0 if not t.isdigit() else int(t) for t in toks], feb[0]]

    def dm_feb():
        m = re.search(r"let feb_days = if flags\.ndays\(\) == (\d+) \{ (\d+) \} else \{ (\d+) \};", diff_body())
        return [int(m.group(1)), int(m.group(2)), int(m.group(3))]

    def dm_div():
        b = diff_body()
        m1 = re.search(r"let year = months\.div_euclid\((\d+)\);", b)
        m2 = re.search(r"let month = months\.rem_euclid\((\d+)\) as u32 \+ (\d+);", b)
        m3 = re.search(r"self\.year\(\) \* (\d+) \+ self\.month\(\) as i32 - (\d+)", b)
        return [int(m1.group(1)), int(m2.group(1)), int(m2.group(2)), int(m3.group(1)), int(m3.group(2))]

    def month_days():
        body = re.search(r"pub fn num_days\(&self, year: i32\).*?\n    \}", month, re.S).group(0)
        out = [None] * 12
        for n, v in re.findall(r"Month::(\w+)\s*=>\s*(\d+)\s*,", body):
            out[MO.index(n)] = int(v)
        m = re.search(r"Month::February\s*=>\s*match NaiveDate::from_ymd_opt\(year, (\d+), (\d+)\)\?\.leap_year\(\) \{\s*"
                      r"true => (\d+),\s*false => (\d+),", body)
        assert out[1] is None and all(x is not None for i, x in enumerate(out) if i != 1)
        out[1] = 0
        return [out, [int(m.group(1)), int(m.group(2)), int(m.group(3)), int(m.group(4))]]

    def wo_max():
        m = re.search(r"fn with_ordinal\(&self, ordinal: u32\).*?if ordinal == (\d+) \|\| ordinal > (\d+) \{", date, re.S)
        return [int(m.group(1)), int(m.group(2))]

    def quarter():
        m = re.search(r"fn quarter\(&self\) -> u32 \{\s*\(self\.month\(\) - (\d+)\)\.div_euclid\((\d+)\) \+ (\d+)", traits)
        return [int(m.group(1)), int(m.group(2)), int(m.group(3))]

    items = {}
    for key, where, fn in [
        ("C08.diff_months days", "src/naive/date/mod.rs", dm_days),
        ("C08.diff_months feb_days", "src/naive/date/mod.rs", dm_feb),
        ("C08.diff_months split", "src/naive/date/mod.rs", dm_div),
        ("C08.Month::num_days", "src/month.rs", month_days),
        ("C08.with_ordinal bounds", "src/naive/date/mod.rs", wo_max),
        ("C08.quarter", "src/traits.rs", quarter),
    ]:
        items[key] = api.section(key, where, fn, None)
    if any(v is None for v in items.values()):
        return  # keep the committed snapshot file; stale items are in the report
    for k, v in items.items():
        api.keep(k, v)
    t = api.hdr + "namespace Chrono.Extracted.DateOps\n\n"
    t += "/-- the `days` array of `NaiveDate::diff_months`; the `feb_days` cell is written 0 -/\n"
    t += api.lean_nat_list("DM_DAYS", items["C08.diff_months days"][0])
    t += f"def DM_FEB_INDEX : Nat := {items['C08.diff_months days'][1]}\n"
    f = items["C08.diff_months feb_days"]
    t += "/-- `if flags.ndays() == DM_NDAYS_LEAP { DM_FEB_LEAP } else { DM_FEB_COMMON }` -/\n"
    t += f"def DM_NDAYS_LEAP : Nat := {f[0]}\ndef DM_FEB_LEAP : Nat := {f[1]}\ndef DM_FEB_COMMON : Nat := {f[2]}\n"
    s = items["C08.diff_months split"]
    t += "/-- `months.div_euclid(DM_DIV)`, `months.rem_euclid(DM_REM) as u32 + DM_ADD`, `year * DM_MUL + month - DM_SUB` -/\n"
    t += f"def DM_DIV : Int := {s[0]}\ndef DM_REM : Int := {s[1]}\ndef DM_ADD : Nat := {s[2]}\ndef DM_MUL : Int := {s[3]}\ndef DM_SUB : Int := {s[4]}\n"
    md = items["C08.Month::num_days"]
    t += "/-- the arms of `Month::num_days` (January first); the February arm is written 0 -/\n"
    t += api.lean_nat_list("MN_DAYS", md[0])
    t += "/-- February arm: `from_ymd_opt(year, MN_FEB_MONTH, MN_FEB_DAY)?.leap_year()`: true / false -/\n"
    t += f"def MN_FEB_MONTH : Nat := {md[1][0]}\ndef MN_FEB_DAY : Nat := {md[1][1]}\ndef MN_FEB_TRUE : Nat := {md[1][2]}\ndef MN_FEB_FALSE : Nat := {md[1][3]}\n"
    w = items["C08.with_ordinal bounds"]
    t += "/-- `if ordinal == WO_MIN || ordinal > WO_MAX { return None }` -/\n"
    t += f"def WO_ZERO : Nat := {w[0]}\ndef WO_MAX : Nat := {w[1]}\n"
    q = items["C08.quarter"]
    t += "/-- `(month - Q_SUB).div_euclid(Q_DIV) + Q_ADD` -/\n"
    t += f"def Q_SUB : Nat := {q[0]}\ndef Q_DIV : Nat := {q[1]}\ndef Q_ADD : Nat := {q[2]}\n"
    t += "\nend Chrono.Extracted.DateOps\n"
    api.emit("DateOps.lean", t)
