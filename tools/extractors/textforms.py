"""C09: the fixed item lists the `FromStr` impls feed to the item-driven parser, and the variant
names that the derived `Debug` of `Weekday` / `Month` prints.

Each item becomes a list of naturals (no Model import needed in Extracted/):
  literal  -> 0 :: utf-8 bytes          space   -> 1 :: utf-8 bytes
  numeric  -> [2, index in NUMERIC, index in PAD]      fixed -> [3, index in FIXED]
The index orders are those of `Numeric.all` / `Fixed.all` / `Pad` in lean/Chrono/Model/Items.lean.
`Chrono.Props.C09.items_match_source` states that the model's item lists are these lists; a dropped,
reordered or changed item makes that theorem fail on the re-extracted data.
Output: lean/Chrono/Extracted/TextForms.lean.
"""
import os
import re

NUMERIC = ["Year", "YearDiv100", "YearMod100", "IsoYear", "IsoYearDiv100", "IsoYearMod100", "Quarter", "Month",
           "Day", "WeekFromSun", "WeekFromMon", "IsoWeek", "NumDaysFromSun", "WeekdayFromMon", "Ordinal", "Hour",
           "Hour12", "Minute", "Second", "Nanosecond", "Timestamp"]
FIXED = ["ShortMonthName", "LongMonthName", "ShortWeekdayName", "LongWeekdayName", "LowerAmPm", "UpperAmPm",
         "Nanosecond", "Nanosecond3", "Nanosecond6", "Nanosecond9", "TimezoneName", "TimezoneOffsetColon",
         "TimezoneOffsetDoubleColon", "TimezoneOffsetTripleColon", "TimezoneOffsetColonZ", "TimezoneOffset",
         "TimezoneOffsetZ", "RFC2822", "RFC3339"]
PAD = ["None", "Zero", "Space"]

# (lean name, file, regex locating the enclosing impl/fn, name of the const inside it)
LISTS = [
    ("naive_date", "src/naive/date/mod.rs", r"impl str::FromStr for NaiveDate\b", "ITEMS"),
    ("naive_time_hm", "src/naive/time/mod.rs", r"impl str::FromStr for NaiveTime\b", "HOUR_AND_MINUTE"),
    ("naive_time_sn", "src/naive/time/mod.rs", r"impl str::FromStr for NaiveTime\b", "SECOND_AND_NANOS"),
    ("naive_time_ws", "src/naive/time/mod.rs", r"impl str::FromStr for NaiveTime\b", "TRAILING_WHITESPACE"),
    ("naive_datetime", "src/naive/datetime/mod.rs", r"impl str::FromStr for NaiveDateTime\b", "ITEMS"),
    ("relaxed_date", "src/format/parse.rs", r"fn parse_rfc3339_relaxed<", "DATE_ITEMS"),
    ("relaxed_time", "src/format/parse.rs", r"fn parse_rfc3339_relaxed<", "TIME_ITEMS"),
]


def block_after(src, start):
    i = src.index("{", start)
    depth, j = 0, i
    while j < len(src):
        if src[j] == "{":
            depth += 1
        elif src[j] == "}":
            depth -= 1
            if depth == 0:
                return src[i:j + 1]
        j += 1
    raise LookupError("unbalanced block")


def unescape(s):
    return bytes(s, "utf-8").decode("unicode_escape").encode("latin-1").decode("utf-8") if "\\" in s else s


def parse_items(body):
    out = []
    pos = 0
    pat = re.compile(
        r'Item::(Literal|Space)\(\s*"((?:[^"\\]|\\.)*)"\s*\)'
        r'|Item::Numeric\(\s*Numeric::(\w+)\s*,\s*Pad::(\w+)\s*\)'
        r'|Item::Fixed\(\s*Fixed::(\w+)\s*\)')
    rest = body
    for m in pat.finditer(body):
        between = body[pos:m.start()]
        if re.search(r"\w", between):
            raise LookupError("unrecognised item text: " + between.strip()[:40])
        pos = m.end()
        if m.group(1):
            bs = list(unescape(m.group(2)).encode("utf-8"))
            out.append([0 if m.group(1) == "Literal" else 1] + bs)
        elif m.group(3):
            out.append([2, NUMERIC.index(m.group(3)), PAD.index(m.group(4))])
        else:
            out.append([3, FIXED.index(m.group(5))])
    if re.search(r"\w", body[pos:]):
        raise LookupError("unrecognised item text: " + body[pos:].strip()[:40])
    if not out:
        raise LookupError("no items")
    return out


def const_items(src, where_pat, name):
    ms = list(re.finditer(where_pat, src))
    if len(ms) != 1:
        raise LookupError(f"{where_pat}: {len(ms)} matches")
    blk = block_after(src, ms[0].start())
    m = re.search(r"\bconst\s+" + re.escape(name) + r"\s*:\s*[^=]+=\s*&?\s*\[(.*?)\]\s*;", blk, re.S)
    if not m:
        raise LookupError(f"const {name} not found")
    return parse_items(m.group(1))


def enum_variants(src, name):
    m = re.search(r"\bpub enum " + re.escape(name) + r"\s*\{(.*?)\n\}", src, re.S)
    if not m:
        raise LookupError("enum " + name)
    body = re.sub(r"#\[[^\]]*\]", "", m.group(1))
    vs = re.findall(r"\b([A-Z][A-Za-z0-9]*)\b\s*(?:=\s*\d+\s*)?,", body)
    if not vs:
        raise LookupError("no variants")
    return [list(v.encode("utf-8")) for v in vs]


def previous():
    p = os.path.join(os.path.dirname(os.path.dirname(os.path.dirname(os.path.abspath(__file__)))),
                     "lean", "Chrono", "Extracted", "TextForms.lean")
    prev = {}
    try:
        for m in re.finditer(r"def (TF_\w+) : List \(List Nat\) := \[(.*?)\]\n", open(p).read()):
            prev[m.group(1)] = [[int(x) for x in grp.split(",") if x.strip()]
                                for grp in re.findall(r"\[([^\[\]]*)\]", m.group(2))]
    except OSError:
        pass
    return prev


def run(api):
    prev = previous()
    cache = {}

    def src_of(rel):
        if rel not in cache:
            cache[rel] = api.strip_comments(api.read(rel))
        return cache[rel]

    text = api.hdr + "namespace Chrono.Extracted\n\n"

    def put(key, val):
        nonlocal text
        text += f"def {key} : List (List Nat) := [" + ", ".join(
            "[" + ", ".join(str(x) for x in it) + "]" for it in val) + "]\n"

    for name, rel, where_pat, cname in LISTS:
        key = "TF_ITEMS_" + name
        val = api.section(key, rel, lambda rel=rel, w=where_pat, c=cname: const_items(src_of(rel), w, c), prev.get(key))
        if val is not None:
            put(key, val)
    for key, rel, en in [("TF_WEEKDAY_VARIANTS", "src/weekday.rs", "Weekday"), ("TF_MONTH_VARIANTS", "src/month.rs", "Month")]:
        val = api.section(key, rel, lambda rel=rel, en=en: enum_variants(src_of(rel), en), prev.get(key))
        if val is not None:
            put(key, val)
    text += "\nend Chrono.Extracted\n"
    api.emit("TextForms.lean", text)
