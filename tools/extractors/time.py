"""C07: the integer literals of the NaiveTime functions the model mirrors, in source order.

The bodies of these functions use bare literals (24, 60, 86_400, 1_000_000_000, …) rather than
named constants, so the translator records, per function, the ordered list of integer literals of
its body.  `Chrono.Props.C07.literals_ok` states what these lists are for the code the model was
written against; a changed limit or unit makes that theorem fail on the re-extracted data.
Output: lean/Chrono/Extracted/TimeLits.lean.
"""
import os
import re

TIME = "src/naive/time/mod.rs"
TRAITS = "src/traits.rs"

# (lean name, file, regex that finds the start of the item; the body is the brace block after it)
ITEMS = [
    ("from_hms_milli_opt", TIME, r"pub const fn from_hms_milli_opt\("),
    ("from_hms_micro_opt", TIME, r"pub const fn from_hms_micro_opt\("),
    ("from_hms_nano_opt", TIME, r"pub const fn from_hms_nano_opt\("),
    ("from_num_seconds_from_midnight_opt", TIME, r"pub const fn from_num_seconds_from_midnight_opt\("),
    ("overflowing_add_signed", TIME, r"pub const fn overflowing_add_signed\("),
    ("signed_duration_since", TIME, r"pub const fn signed_duration_since\("),
    ("overflowing_add_offset", TIME, r"const fn overflowing_add_offset\("),
    ("overflowing_sub_offset", TIME, r"const fn overflowing_sub_offset\("),
    ("hms", TIME, r"fn hms\(&self\)"),
    ("MAX", TIME, r"const MAX: Self ="),
    ("with_hour", TIME, r"fn with_hour\("),
    ("with_minute", TIME, r"fn with_minute\("),
    ("with_second", TIME, r"fn with_second\("),
    ("with_nanosecond", TIME, r"fn with_nanosecond\("),
    ("add_std_duration", TIME, r"impl Add<Duration> for NaiveTime"),
    ("sub_std_duration", TIME, r"impl Sub<Duration> for NaiveTime"),
    ("hour12", TRAITS, r"fn hour12\(&self\)"),
    ("num_seconds_from_midnight_default", TRAITS, r"fn num_seconds_from_midnight\(&self\) -> u32 \{"),
]


def block_after(src, start):
    """text of the first balanced { … } block at or after `start`"""
    i = src.index("{", start)
    depth, j = 0, i
    while j < len(src):
        if src[j] == "{":
            depth += 1
        elif src[j] == "}":
            depth -= 1
            if depth == 0:
                return src[i:j + 1]
        j += 1
    raise LookupError("unbalanced block")


def literals(text):
    out = []
    for m in re.finditer(r"(?<![\w.])(\d[\d_]*)(?:u8|u16|u32|u64|i8|i16|i32|i64|usize)?(?![\w.])", text):
        out.append(int(m.group(1).replace("_", "")))
    return out


def previous():
    """values of the committed TimeLits.lean (the snapshot this plugin falls back to when an item
    cannot be located any more)"""
    p = os.path.join(os.path.dirname(os.path.dirname(os.path.dirname(os.path.abspath(__file__)))),
                     "lean", "Chrono", "Extracted", "TimeLits.lean")
    prev = {}
    try:
        for m in re.finditer(r"def (TIME_LITS_\w+) : List Int := \[([^\]]*)\]", open(p).read()):
            prev[m.group(1)] = [int(x) for x in m.group(2).split(",") if x.strip()]
    except OSError:
        pass
    return prev


def run(api):
    prev = previous()
    cache = {}
    def src_of(rel):
        if rel not in cache:
            cache[rel] = api.strip_comments(api.read(rel))
        return cache[rel]
    names = []
    text = api.hdr + "namespace Chrono.Extracted\n\n"
    for name, rel, pat in ITEMS:
        key = "TIME_LITS_" + name
        def get(rel=rel, pat=pat):
            src = src_of(rel)
            ms = list(re.finditer(pat, src))
            if len(ms) != 1:
                raise LookupError(f"{pat}: {len(ms)} matches")
            lits = literals(block_after(src, ms[0].start()))
            if not lits:
                raise LookupError(f"{pat}: no literals")
            return lits
        val = api.section(key, rel, get, prev.get(key))
        if val is None:
            continue
        names.append(key)
        text += f"def {key} : List Int := [{', '.join(str(v) for v in val)}]\n"
    text += "\nend Chrono.Extracted\n"
    api.emit("TimeLits.lean", text)
