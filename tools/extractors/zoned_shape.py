"""C04: the SHAPE of the four types equality / ordering / hashing of a zone-aware value rest on.

The anchor tokenizer (tools/extractors/anchors.py) drops attributes, so `#[derive(PartialEq, Eq, Hash, PartialOrd,
Ord, ..)]` on `NaiveDateTime` / `NaiveDate` / `NaiveTime` and the ORDER of their fields (the derived `Ord` compares
the fields in declaration order, the derived `Hash` feeds them in declaration order) are in no source pin, and a
hand-written `impl Ord for NaiveDateTime` would be a NEW item no pin of an existing item sees.  This translator reads,
for each of `DateTime`, `NaiveDateTime`, `NaiveDate`, `NaiveTime`, on every run:
  * `<T>_DERIVE`  the trait names of the unconditional `#[derive(..)]` attribute(s) directly on the struct,
  * `<T>_FIELDS`  (field name, field type) in declaration order,
  * `<T>_IMPLS`   the comparison / hashing traits (`PartialEq Eq PartialOrd Ord Hash`) the file implements BY HAND for
                  the type, in source order (last path segment of the trait).
Output: lean/Chrono/Extracted/ZonedShape.lean; pinned by `Chrono.Props.C04.shape_pins` against what the model
(`NaiveDT.cmp` = date then time, `Time.cmp` = secs then frac, `NaiveDT.hashWords` = `[yof, secs, frac]`, `Zoned.cmp/eq/
hashWords` = those of the UTC reading) was written from.  Anything that cannot be read makes the item stale.
"""
import re

KEY = "C04.type shapes"
TYPES = [("src/datetime/mod.rs", "DateTime"), ("src/naive/datetime/mod.rs", "NaiveDateTime"),
         ("src/naive/date/mod.rs", "NaiveDate"), ("src/naive/time/mod.rs", "NaiveTime")]
TRAITS = {"PartialEq", "Eq", "PartialOrd", "Ord", "Hash"}


def extract(api):
    out = {}
    for rel, name in TYPES:
        src = api.strip_comments(api.read(rel))
        ms = list(re.finditer(r"\bpub\s+struct\s+" + name + r"\b(?:<[^>{]*>)?\s*\{([^{}]*)\}", src))
        if len(ms) != 1:
            raise LookupError(f"{rel}: expected exactly one `pub struct {name} {{..}}`, found {len(ms)}")
        m = ms[0]
        fields = []
        for part in m.group(1).split(","):
            part = part.strip()
            if not part:
                continue
            fm = re.match(r"^(?:pub(?:\([^)]*\))?\s+)?(\w+)\s*:\s*(.+)$", part, re.S)
            if not fm:
                raise LookupError(f"{rel}: field of {name} not understood: {part!r}")
            fields.append([fm.group(1), re.sub(r"\s+", "", fm.group(2))])
        head = src[:m.start()].rstrip()
        am = re.search(r"((?:#\[[^\]]*\]\s*)+)$", head + "\n")
        attrs = re.findall(r"#\[([^\]]*)\]", am.group(1)) if am else []
        derives = []
        for a in attrs:
            dm = re.match(r"^\s*derive\s*\((.*)\)\s*$", a, re.S)
            if dm:
                derives += [x.strip().split("::")[-1] for x in dm.group(1).split(",") if x.strip()]
        impls = []
        for im in re.finditer(r"(?m)^\s*impl\b(?:\s*<[^>]*>)?\s+([\w:]+)(?:<[^{]*?>)?\s+for\s+" + name + r"\b", src):
            t = im.group(1).split("::")[-1]
            if t in TRAITS:
                impls.append(t)
        out[name] = {"derive": derives, "fields": fields, "impls": impls}
    if not out["NaiveDateTime"]["derive"] or not out["DateTime"]["impls"]:
        raise LookupError("derive list of NaiveDateTime / comparison impls of DateTime not found")
    return out


def run(api):
    d = api.section(KEY, ", ".join(r for r, _ in TYPES), lambda: extract(api), api.snap(KEY))
    if d is None:
        return
    api.keep(KEY, d)
    q = lambda s: '"' + s.replace("\\", "\\\\").replace('"', '\\"') + '"'
    t = api.hdr + "namespace Chrono.Extracted.ZonedShape\n\n"
    for _, name in TYPES:
        e = d[name]
        t += f"/-- unconditional `#[derive(..)]` on `struct {name}` -/\n"
        t += f"def {name}_DERIVE : List String := [" + ", ".join(q(x) for x in e["derive"]) + "]\n"
        t += f"/-- fields of `struct {name}`: (name, type), declaration order -/\n"
        t += f"def {name}_FIELDS : List (String × String) := [" + ", ".join(f"({q(a)}, {q(b)})" for a, b in e["fields"]) + "]\n"
        t += f"/-- comparison / hashing traits implemented by hand for `{name}` in its file, source order -/\n"
        t += f"def {name}_IMPLS : List String := [" + ", ".join(q(x) for x in e["impls"]) + "]\n\n"
    t += "end Chrono.Extracted.ZonedShape\n"
    api.emit("ZonedShape.lean", t)
