"""C11: the RFC 2822 zone table of `scan::timezone_offset_2822` (src/format/scan.rs), translated on
every run: the `name.eq_ignore_ascii_case(b"…") … => offset_hours(N)` chain as a list of
(lower-case name, hours) in source order, and the byte ranges of the single-letter (military) arm.
`Chrono.Props.C11.tables_ok` states that these are the table of RFC 2822 §4.3 used by the
specification; a changed cell makes that theorem fail on the re-extracted data.
Output: lean/Chrono/Extracted/Rfc2822.lean.
"""
import os
import re

SCAN = "src/format/scan.rs"


def previous():
    p = os.path.join(os.path.dirname(os.path.dirname(os.path.dirname(os.path.abspath(__file__)))),
                     "lean", "Chrono", "Extracted", "Rfc2822.lean")
    prev = {}
    try:
        src = open(p).read()
        m = re.search(r"def ZONE_2822 : List \(List Nat × Int\) := \[(.*?)\]\n", src, re.S)
        if m:
            prev["ZONE_2822"] = [([int(x) for x in a.split(",") if x.strip()], int(b))
                                 for a, b in re.findall(r"\(\[([^\]]*)\], (-?\d+)\)", m.group(1))]
        m = re.search(r"def MILITARY_2822 : List \(Nat × Nat\) := \[(.*?)\]\n", src, re.S)
        if m:
            prev["MILITARY_2822"] = [(int(a), int(b)) for a, b in re.findall(r"\((\d+), (\d+)\)", m.group(1))]
    except OSError:
        pass
    return prev


def body_of(src):
    i = src.index("fn timezone_offset_2822(")
    j = src.index("{", i)
    depth, k = 0, j
    while k < len(src):
        if src[k] == "{":
            depth += 1
        elif src[k] == "}":
            depth -= 1
            if depth == 0:
                return src[j:k + 1]
        k += 1
    raise LookupError("unbalanced body")


def run(api):
    prev = previous()
    src = api.strip_comments(api.read(SCAN))

    def zones():
        body = body_of(src)
        out = []
        for cond, hours in re.findall(r"if\s+((?:name\.eq_ignore_ascii_case\(b\"\w+\"\)\s*(?:\|\|\s*)?)+)\{\s*return\s+offset_hours\((-?\d+)\)\s*;", body):
            for nm in re.findall(r"b\"(\w+)\"", cond):
                out.append(([ord(c) for c in nm.lower()], int(hours)))
        if not out:
            raise LookupError("zone chain not found")
        return out

    def military():
        body = body_of(src)
        m = re.search(r"if\s+let\s+((?:b'.'\s*\.\.=\s*b'.'\s*\|?\s*)+)=\s*name\[0\]", body)
        if not m:
            raise LookupError("single-letter arm not found")
        rs = [(ord(a), ord(b)) for a, b in re.findall(r"b'(.)'\s*\.\.=\s*b'(.)'", m.group(1))]
        if not rs:
            raise LookupError("no ranges")
        return rs

    z = api.section("ZONE_2822", SCAN, zones, prev.get("ZONE_2822"))
    mil = api.section("MILITARY_2822", SCAN, military, prev.get("MILITARY_2822"))
    if z is None or mil is None:
        return
    text = api.hdr + "namespace Chrono.Extracted\n\n"
    text += "/-- `timezone_offset_2822`: (lower-case name, hours east of UTC), in source order -/\n"
    text += "def ZONE_2822 : List (List Nat × Int) := [" + ", ".join(
        "([" + ", ".join(str(b) for b in nm) + "], " + str(h) + ")" for nm, h in z) + "]\n\n"
    text += "/-- byte ranges of the single-letter arm (read as +0000) -/\n"
    text += "def MILITARY_2822 : List (Nat × Nat) := [" + ", ".join(f"({a}, {b})" for a, b in mil) + "]\n"
    text += "\nend Chrono.Extracted\n"
    api.emit("Rfc2822.lean", text)
