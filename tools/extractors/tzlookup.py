"""Extractor plugin for C05: calendar tables and constants of the zone lookups
(src/offset/local/tz_info/mod.rs and rule.rs) -> lean/Chrono/Extracted/TzLookup.lean."""

FALLBACK = {
    "DAY_IN_MONTHS_NORMAL_YEAR": [31, 28, 31, 30, 31, 30, 31, 31, 30, 31, 30, 31],
    "CUMUL_DAY_IN_MONTHS_NORMAL_YEAR": [0, 31, 59, 90, 120, 151, 181, 212, 243, 273, 304, 334],
    "DAY_IN_MONTHS_LEAP_YEAR_FROM_MARCH": [31, 30, 31, 30, 31, 31, 30, 31, 30, 31, 31, 29],
    "SECONDS_PER_DAY": 86400, "DAYS_PER_WEEK": 7,
    "SECONDS_PER_HOUR": 3600, "SECONDS_PER_MINUTE": 60, "MINUTES_PER_HOUR": 60, "MONTHS_PER_YEAR": 12,
    "DAYS_PER_NORMAL_YEAR": 365, "DAYS_PER_4_YEARS": 1461, "DAYS_PER_100_YEARS": 36524,
    "DAYS_PER_400_YEARS": 146097, "UNIX_OFFSET_SECS": 951868800, "OFFSET_YEAR": 2000,
}


def run(api):
    modrs = api.strip_comments(api.read("src/offset/local/tz_info/mod.rs"))
    rule = api.strip_comments(api.read("src/offset/local/tz_info/rule.rs"))
    # drop the test module so that test-only constants cannot shadow the real ones
    cut = rule.find("#[cfg(test)]")
    if cut > 0:
        rule = rule[:cut]
    env = {}
    out = {}

    def const(src, where, name):
        def f():
            v = api.ev(api.find_const(src, name), env)
            return v
        v = api.section("TZL_" + name, where, f, FALLBACK[name])
        env[name] = v
        out[name] = v

    def array(src, where, name):
        def f():
            return [api.ev(x, env) for x in api.find_array(src, name)]
        out[name] = api.section("TZL_" + name, where, f, FALLBACK[name])

    m = "src/offset/local/tz_info/mod.rs"
    r = "src/offset/local/tz_info/rule.rs"
    for n in ["HOURS_PER_DAY"]:
        try:
            env[n] = api.ev(api.find_const(modrs, n), env)
        except Exception:
            env[n] = 24
    const(modrs, m, "SECONDS_PER_HOUR")
    const(modrs, m, "SECONDS_PER_DAY")
    const(modrs, m, "DAYS_PER_WEEK")
    array(modrs, m, "DAY_IN_MONTHS_NORMAL_YEAR")
    array(modrs, m, "CUMUL_DAY_IN_MONTHS_NORMAL_YEAR")
    for n in ["SECONDS_PER_MINUTE", "MINUTES_PER_HOUR", "MONTHS_PER_YEAR", "DAYS_PER_NORMAL_YEAR",
              "DAYS_PER_4_YEARS", "DAYS_PER_100_YEARS", "DAYS_PER_400_YEARS", "UNIX_OFFSET_SECS", "OFFSET_YEAR"]:
        const(rule, r, n)
    array(rule, r, "DAY_IN_MONTHS_LEAP_YEAR_FROM_MARCH")

    t = api.hdr + "namespace Chrono.Extracted.TzL\n\n"
    for k in sorted(out):
        v = out[k]
        if isinstance(v, list):
            t += f"def {k} : List Int := [" + ", ".join(str(x) for x in v) + "]\n"
        else:
            t += f"def {k} : Int := {v}\n"
    t += "\nend Chrono.Extracted.TzL\n"
    api.emit("TzLookup.lean", t)
