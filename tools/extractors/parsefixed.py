"""C13: the `Item::Fixed` dispatch of `parse_internal` (src/format/parse.rs).

    Item::Fixed(ref spec) => {
        use super::Fixed::*;
        match spec {
            &ShortMonthName => { let month0 = try_consume!(scan::short_month0(s)); parsed.set_month(..)?; }
            …
            &RFC3339 => { try_consume!(parse_rfc3339_relaxed(parsed, s)) }
        }
    }

Every arm becomes one row per variant pattern of the arm, in source order:
`(variant, guard, callee, arguments, setter)` where
* variant   = last path segment of the pattern (`Internal(InternalFixed { val: InternalInternal::X })` -> `X`),
* guard     = `len<N` for `if s.len() < N { return Err(TOO_SHORT); }`, `starts_with('.')` for the optional
              fraction, `` otherwise,
* callee    = the function called inside `try_consume!(…)` (`scan::short_month0`, `scan::timezone_offset`,
              `parse_rfc2822`, …), `Ok` for the inline `try_consume!(Ok((s.trim_start_matches(..), ())))`, or
              `match` for the inline am/pm byte match,
* arguments = the callee's arguments with white space removed (`s.trim_start(),scan::colon_or_space,false,false,true`);
              for the am/pm match the arms `(b'a',b'm')=>false;(b'p',b'm')=>true;_=>returnErr(INVALID)` and the
              bytes consumed (`s=&s[2..]`),
* setter    = the `parsed.set_*` method called, with its argument (`set_month(i64::from(month0)+1)`), or ``.

`Chrono.Props.C13.fixed_table_extracted` states that the model's dispatch (`Parse.parseFixedBase` and the two RFC
arms of `Parse.parse_internal`) is this table, row for row, with the callee / flag / setter names interpreted
by the model functions of the same name.  So a swap `short_month0` <-> `short_or_long_month0`, a flipped
`allow_zulu` flag, a changed length guard or a different setter makes that theorem fail on the re-extracted data.
Output: lean/Chrono/Extracted/ParseFixedTable.lean.
"""
import re

SRC = "src/format/parse.rs"
KEY = "C13.parse fixed table"


def _block(src, i):
    """src[i] == '{' -> index just past the matching '}'"""
    depth = 0
    j = i
    while j < len(src):
        ch = src[j]
        if ch == "{":
            depth += 1
        elif ch == "}":
            depth -= 1
            if depth == 0:
                return j + 1
        elif ch == "'" and src[j + 1 : j + 3] in ("{'", "}'"):
            j += 2
        j += 1
    raise LookupError("unbalanced braces")


def _call_args(text, i):
    """text[i] == '(' -> (arguments, index past ')')"""
    depth = 0
    j = i
    while j < len(text):
        if text[j] == "(":
            depth += 1
        elif text[j] == ")":
            depth -= 1
            if depth == 0:
                return text[i + 1 : j], j + 1
        j += 1
    raise LookupError("unbalanced parentheses")


def run(api):
    src = api.strip_comments(api.read(SRC))

    def table():
        m = re.search(r"Item::Fixed\(ref spec\)\s*=>\s*\{\s*use super::Fixed::\*;\s*match spec\s*\{", src)
        if not m:
            raise LookupError("Fixed arm not found")
        start = m.end() - 1
        end = _block(src, start)
        body = src[start + 1 : end - 1]
        rows = []
        i = 0
        while True:
            while i < len(body) and body[i] in " \t\r\n,":
                i += 1
            if i >= len(body):
                break
            j = body.index("=>", i)
            pats = body[i:j]
            k = j + 2
            while body[k] in " \t\r\n":
                k += 1
            if body[k] == "{":
                e = _block(body, k)
                arm = body[k + 1 : e - 1]
            else:
                # expression arm: up to the `,` at depth 0
                depth = 0
                e = k
                while e < len(body) and not (body[e] == "," and depth == 0):
                    if body[e] in "({[":
                        depth += 1
                    elif body[e] in ")}]":
                        depth -= 1
                    e += 1
                arm = body[k:e]
            i = e
            variants = []
            for p in pats.split("|"):
                p = "".join(p.split())
                if not p.startswith("&"):
                    raise LookupError(f"unexpected pattern {p!r}")
                names = re.findall(r"[A-Za-z_][A-Za-z0-9_]*", p)
                variants.append(names[-1])
            arm_ns = "".join(arm.split())
            guard = ""
            g = re.search(r"ifs\.len\(\)<(\d+)\{returnErr\(TOO_SHORT\);\}", arm_ns)
            if g:
                guard = f"len<{g.group(1)}"
            elif arm_ns.startswith("ifs.starts_with('.'){"):
                guard = "starts_with('.')"
            elif "if" in re.findall(r"[a-z]+", arm_ns):
                raise LookupError(f"unrecognised guard in arm {variants}")
            callee, args = "", ""
            t = arm_ns.find("try_consume!(")
            if t >= 0:
                inner, _ = _call_args(arm_ns, t + len("try_consume!"))
                par = inner.index("(")
                callee = inner[:par]
                args, rest = _call_args(inner, par)
                args = args.rstrip(",")
                if inner[rest:] != "":
                    raise LookupError(f"unexpected text after the call in arm {variants}")
                if arm_ns.count("try_consume!(") != 1:
                    raise LookupError(f"several try_consume! in arm {variants}")
            else:
                mm = re.search(r"match\(([^{]*)\)\{(.*?)\};", arm_ns)
                if not mm:
                    raise LookupError(f"arm {variants}: neither try_consume! nor an inline match")
                callee = "match"
                arms = [a for a in mm.group(2).split(",(") if a]
                arms = [a if a.startswith("(") or a.startswith("_") else "(" + a for a in arms]
                arms = ";".join(a.rstrip(",") for a in ";".join(arms).replace(",_=>", ";_=>").split(";"))
                adv = re.search(r"s=&s\[(\d+)\.\.\];", arm_ns)
                args = f"{mm.group(1)}:{arms}:s=&s[{adv.group(1) if adv else '?'}..]"
            setter = ""
            sm = re.findall(r"parsed\.(set_\w+)\(", arm_ns)
            if len(sm) > 1:
                raise LookupError(f"several setters in arm {variants}")
            if sm:
                a, _ = _call_args(arm_ns, arm_ns.index("parsed." + sm[0] + "(") + len("parsed." + sm[0]))
                setter = f"{sm[0]}({a})"
            for v in variants:
                rows.append([v, guard, callee, args, setter])
        if len(rows) < 20:
            raise LookupError(f"only {len(rows)} rows")
        return rows

    rows = api.section(KEY, SRC, table, api.snap(KEY))
    if rows is None:
        if api.snap(KEY) is not None:
            api.keep(KEY, api.snap(KEY))
        return
    api.keep(KEY, rows)

    def q(s):
        return '"' + s.replace("\\", "\\\\").replace('"', '\\"') + '"'

    t = api.hdr + "namespace Chrono.Extracted\n\n"
    t += "/-- rows of `match spec` in the `Item::Fixed` arm of `parse_internal`, one per variant pattern, source\n"
    t += "order: (Fixed variant, guard, callee, arguments, setter call) -/\n"
    t += "def PARSE_FIXED_TABLE : List (String × String × String × String × String) := [\n  "
    t += ",\n  ".join("(" + ", ".join(q(x) for x in r) + ")" for r in rows) + "]\n\n"
    t += "end Chrono.Extracted\n"
    api.emit("ParseFixedTable.lean", t)
