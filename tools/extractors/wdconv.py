"""C19: the separately written numeric-conversion tables of `Weekday` and `Month`, the `WeekdaySet`
constants and its `single` / `single_day` tables.

src/weekday.rs     enum Weekday { Mon = 0, … }                       -> WEEKDAY_ENUM
                   impl TryFrom<u8> for Weekday   (match value)      -> WEEKDAY_TRYFROM_U8_ARMS / _DEFAULT
                   impl FromPrimitive for Weekday: fn from_i64       -> WEEKDAY_FROM_I64_ARMS / _DEFAULT
                                                   fn from_u64       -> WEEKDAY_FROM_U64_ARMS / _DEFAULT
                   names of the overridden FromPrimitive methods     -> WEEKDAY_FROMPRIMITIVE_OVERRIDES
src/month.rs       enum Month { January = 0, … }                     -> MONTH_ENUM
                   impl TryFrom<u8> for Month                        -> MONTH_TRYFROM_U8_ARMS / _DEFAULT
                   impl FromPrimitive for Month: fn from_u32         -> MONTH_FROM_U32_ARMS / _DEFAULT
                                                 fn from_u64/from_i64 -> MONTH_FROM_U64_VIA / MONTH_FROM_I64_VIA
                   names of the overridden FromPrimitive methods     -> MONTH_FROMPRIMITIVE_OVERRIDES
src/weekday_set.rs const EMPTY / ALL                                 -> WEEKDAYSET_EMPTY / WEEKDAYSET_ALL
                   fn single      (match weekday)                    -> WEEKDAYSET_SINGLE_ARMS
                   fn single_day  (match self)                       -> WEEKDAYSET_SINGLE_DAY_ARMS

A table is the list of its arms in SOURCE ORDER, each arm `(integer literal, discriminant of the variant)`;
`_DEFAULT` is what the wildcard arm gives (`none` = `None` / `Err(OutOfRange::new())`, `some d` = a variant).
Only arms of the shape `<integer literal> => Some(T::V)` / `Ok(T::V)` are understood; the number of `=>` in
the match must equal the number of arms read plus the wildcard, so an or-pattern, a range, a guard or any
other reshaping is REFUSED (the item goes stale and the check reports it) instead of being approximated.
`_VIA` describes a forwarding body: 0 = `Self::from_u32(u32::try_from(n).ok()?)` (range-checked
conversion), 1 = `Self::from_u32(n as u32)` (wrapping cast, the defect fixed by finding #12).
Output: lean/Chrono/Extracted/WdConv.lean; the model entry points of lean/Chrono/Model/WeekdayConv.lean
are lookups in exactly these tables.
"""
import re

KEY = "C19.conversion tables"


def block_after(src, start):
    """text between the first `{` at or after `start` and its matching `}`"""
    i = src.index("{", start)
    depth = 0
    for j in range(i, len(src)):
        if src[j] == "{":
            depth += 1
        elif src[j] == "}":
            depth -= 1
            if depth == 0:
                return src[i + 1:j]
    raise LookupError("unbalanced braces")


def impl_block(src, header_re):
    m = re.search(header_re, src)
    if not m:
        raise LookupError("not found: " + header_re)
    return block_after(src, m.start())


def enum_variants(src, name):
    body = impl_block(src, r"pub enum " + name + r"\s*\{")
    vs = re.findall(r"(\w+)\s*=\s*(\d+)\s*,", body)
    if not vs:
        raise LookupError("enum " + name)
    return [[v, int(d)] for v, d in vs]


def lit(tok):
    t = tok.strip().replace("_", "")
    if re.fullmatch(r"0b[01]+", t):
        return int(t[2:], 2)
    if re.fullmatch(r"0x[0-9a-fA-F]+", t):
        return int(t[2:], 16)
    if re.fullmatch(r"\d+", t):
        return int(t)
    raise LookupError("not an integer literal: " + tok)


def match_table(body, scrutinee, ty, disc):
    """arms of `match <scrutinee> { lit => Some/Ok(ty::V), …, _ => None/Err(..) }`"""
    m = re.search(r"match\s+" + scrutinee + r"\s*\{", body)
    if not m:
        raise LookupError("no match on " + scrutinee)
    arms_src = block_after(body, m.start())
    arms = []
    dflt = None
    seen_wild = False
    ok_wild = ("None", "Err(OutOfRange::new())")
    for arm in [a.strip() for a in arms_src.split(",") if a.strip()]:
        am = re.fullmatch(r"(\w+)\s*=>\s*(.+)", arm, re.S)
        if not am or seen_wild:
            raise LookupError("arm not understood: " + arm)
        pat, rhs = am.group(1), am.group(2).strip()
        vm = re.fullmatch(r"(?:Some|Ok)\(\s*" + ty + r"::(\w+)\s*\)", rhs)
        if pat == "_":
            seen_wild = True
            if rhs in ok_wild:
                dflt = None
            elif vm:
                dflt = disc[vm.group(1)]
            else:
                raise LookupError("wildcard arm not understood: " + rhs)
        else:
            if not vm:
                raise LookupError("arm not understood: " + arm)
            arms.append([lit(pat), disc[vm.group(1)]])
    if not seen_wild:
        raise LookupError("no wildcard arm")
    return arms, dflt


def fns_of(impl_body):
    """{name: (param type, body)} of the `fn name(n: T) -> …` items of an impl block"""
    out = {}
    order = []
    for m in re.finditer(r"fn\s+(\w+)\s*\(\s*(\w+)\s*:\s*(\w+)\s*\)\s*->\s*[^{]+\{", impl_body):
        out[m.group(1)] = (m.group(2), m.group(3), block_after(impl_body, m.start()))
        order.append(m.group(1))
    return out, order


def via(body, param):
    b = re.sub(r"\s+", "", body)
    if b == f"Self::from_u32(u32::try_from({param}).ok()?)":
        return 0
    if b == f"Self::from_u32({param}asu32)":
        return 1
    raise LookupError("forwarding body not understood: " + body.strip())


def extract(api):
    wd = api.strip_comments(api.read("src/weekday.rs"))
    mo = api.strip_comments(api.read("src/month.rs"))
    ws = api.strip_comments(api.read("src/weekday_set.rs"))
    cut = ws.find("#[cfg(test)]")
    if cut > 0:
        ws = ws[:cut]
    d = {}
    d["WEEKDAY_ENUM"] = enum_variants(wd, "Weekday")
    d["MONTH_ENUM"] = enum_variants(mo, "Month")
    wdisc = {v: k for v, k in d["WEEKDAY_ENUM"]}
    mdisc = {v: k for v, k in d["MONTH_ENUM"]}

    t = impl_block(wd, r"impl TryFrom<u8> for Weekday\s*\{")
    f, _ = fns_of(t)
    d["WEEKDAY_TRYFROM_U8"] = list(match_table(f["try_from"][2], f["try_from"][0], "Weekday", wdisc))
    assert f["try_from"][1] == "u8"
    t = impl_block(wd, r"impl num_traits::FromPrimitive for Weekday\s*\{")
    f, order = fns_of(t)
    d["WEEKDAY_FROMPRIMITIVE_OVERRIDES"] = order
    assert f["from_i64"][1] == "i64" and f["from_u64"][1] == "u64"
    d["WEEKDAY_FROM_I64"] = list(match_table(f["from_i64"][2], f["from_i64"][0], "Weekday", wdisc))
    d["WEEKDAY_FROM_U64"] = list(match_table(f["from_u64"][2], f["from_u64"][0], "Weekday", wdisc))

    t = impl_block(mo, r"impl TryFrom<u8> for Month\s*\{")
    f, _ = fns_of(t)
    assert f["try_from"][1] == "u8"
    d["MONTH_TRYFROM_U8"] = list(match_table(f["try_from"][2], f["try_from"][0], "Month", mdisc))
    t = impl_block(mo, r"impl num_traits::FromPrimitive for Month\s*\{")
    f, order = fns_of(t)
    d["MONTH_FROMPRIMITIVE_OVERRIDES"] = order
    assert f["from_u32"][1] == "u32" and f["from_u64"][1] == "u64" and f["from_i64"][1] == "i64"
    d["MONTH_FROM_U32"] = list(match_table(f["from_u32"][2], f["from_u32"][0], "Month", mdisc))
    d["MONTH_FROM_U64_VIA"] = via(f["from_u64"][2], f["from_u64"][0])
    d["MONTH_FROM_I64_VIA"] = via(f["from_i64"][2], f["from_i64"][0])

    m = re.search(r"pub const EMPTY\s*:\s*Self\s*=\s*Self\(([^)]*)\)\s*;", ws)
    d["WEEKDAYSET_EMPTY"] = lit(m.group(1))
    m = re.search(r"pub const ALL\s*:\s*Self\s*=\s*Self\(([^)]*)\)\s*;", ws)
    d["WEEKDAYSET_ALL"] = lit(m.group(1))
    m = re.search(r"pub const fn single\s*\(", ws)
    body = block_after(ws, m.start())
    mb = block_after(body, re.search(r"match\s+weekday\s*\{", body).start())
    arms = [[wdisc[v], lit(x)] for v, x in re.findall(r"Weekday::(\w+)\s*=>\s*Self\(([^)]*)\)", mb)]
    if mb.count("=>") != len(arms):
        raise LookupError("single: arms not understood")
    d["WEEKDAYSET_SINGLE"] = arms
    m = re.search(r"pub const fn single_day\s*\(", ws)
    body = block_after(ws, m.start())
    mb = block_after(body, re.search(r"match\s+self\s*\{", body).start())
    arms = [[lit(x), wdisc[v]] for x, v in re.findall(r"Self\(([^)]*)\)\s*=>\s*Some\(\s*Weekday::(\w+)\s*\)", mb)]
    if mb.count("=>") != len(arms) + 1 or not re.search(r"\b_\s*=>\s*None\b", mb):
        raise LookupError("single_day: arms not understood")
    d["WEEKDAYSET_SINGLE_DAY"] = arms
    return d


def run(api):
    d = api.section(KEY, "src/weekday.rs, src/month.rs, src/weekday_set.rs", lambda: extract(api), api.snap(KEY))
    if d is None:
        return
    api.keep(KEY, d)

    def pairs(name, rows, doc, ty="Int × Nat"):
        return (f"/-- {doc} -/\ndef {name} : List ({ty}) := [" +
                ", ".join(f"({a}, {b})" for a, b in rows) + "]\n")

    def optn(name, v, doc):
        return f"/-- {doc} -/\ndef {name} : Option Nat := " + ("none" if v is None else f"some {v}") + "\n"

    t = api.hdr + "namespace Chrono.Extracted\n\n"
    for ty in ("WEEKDAY", "MONTH"):
        t += f"/-- variants of the enum with their declared discriminants, source order -/\n"
        t += f"def {ty}_ENUM : List (String × Nat) := [" + ", ".join(f'("{v}", {k})' for v, k in d[ty + "_ENUM"]) + "]\n"
    for key, doc in [("WEEKDAY_TRYFROM_U8", "`impl TryFrom<u8> for Weekday`"),
                     ("WEEKDAY_FROM_I64", "`Weekday::from_i64` (FromPrimitive)"),
                     ("WEEKDAY_FROM_U64", "`Weekday::from_u64` (FromPrimitive)"),
                     ("MONTH_TRYFROM_U8", "`impl TryFrom<u8> for Month`"),
                     ("MONTH_FROM_U32", "`Month::from_u32` (FromPrimitive)")]:
        arms, dflt = d[key]
        t += pairs(key + "_ARMS", arms, f"arms of {doc}: (literal, discriminant of the variant), source order")
        t += optn(key + "_DEFAULT", dflt, f"wildcard arm of {doc}: `none` = rejected")
    t += "/-- body of `Month::from_u64`: 0 = `Self::from_u32(u32::try_from(n).ok()?)`, 1 = `Self::from_u32(n as u32)` -/\n"
    t += f"def MONTH_FROM_U64_VIA : Nat := {d['MONTH_FROM_U64_VIA']}\n"
    t += "/-- body of `Month::from_i64`, same encoding -/\n"
    t += f"def MONTH_FROM_I64_VIA : Nat := {d['MONTH_FROM_I64_VIA']}\n"
    for ty in ("WEEKDAY", "MONTH"):
        t += "/-- the `FromPrimitive` methods the impl writes itself (every other one is num_traits' default) -/\n"
        t += f"def {ty}_FROMPRIMITIVE_OVERRIDES : List String := [" + ", ".join(f'"{x}"' for x in d[ty + "_FROMPRIMITIVE_OVERRIDES"]) + "]\n"
    t += f"/-- `WeekdaySet::EMPTY` -/\ndef WEEKDAYSET_EMPTY : Nat := {d['WEEKDAYSET_EMPTY']}\n"
    t += f"/-- `WeekdaySet::ALL` -/\ndef WEEKDAYSET_ALL : Nat := {d['WEEKDAYSET_ALL']}\n"
    t += pairs("WEEKDAYSET_SINGLE_ARMS", d["WEEKDAYSET_SINGLE"],
               "arms of `WeekdaySet::single`: (discriminant of the weekday, word)", "Nat × Nat")
    t += pairs("WEEKDAYSET_SINGLE_DAY_ARMS", d["WEEKDAYSET_SINGLE_DAY"],
               "arms of `WeekdaySet::single_day`: (word, discriminant of the weekday); wildcard = `None`", "Nat × Nat")
    t += "\nend Chrono.Extracted\n"
    api.emit("WdConv.lean", t)
