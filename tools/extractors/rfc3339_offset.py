"""C10 (audit2 M1): the literals INSIDE the offset reader / writer and the digit helpers, translated from the Rust source.

Every integer literal, byte literal `b'x'` (as its value) and char literal `'x'` of a function body, in source order
(comments stripped, string literals blanked, type suffixes dropped; `i32`, `u8` ... are not literals; the `k` of a
slice `&s[k..]` is one):

  RFC3339_TZ_LITS        integers + byte literals of `scan::timezone_offset` (inner `digits` included)
  RFC3339_TZ_CHARS       its char literals, each as its UTF-8 byte list ('+', '-', U+2212: pattern and `len_utf8` receiver)
  RFC3339_OFFFMT_LITS    integers + byte literals of `OffsetFormat::format`
  RFC3339_OFFFMT_CHARS   its char literals as code points (all ASCII, else the section is stale)
  RFC3339_HUNDREDS_LITS  integers + byte literals of `write_hundreds`
  RFC3339_NUMBER_LITS    integers + byte literals of `scan::number`
  RFC3339_SECFORM_VARIANTS  the variant names of `enum SecondsFormat`, in order (audit2 L2: the sixth, doc-hidden
                         `__NonExhaustive` is constructible and makes `to_rfc3339_opts` panic; it is outside the
                         property's "five precision options" and has no constructor in the model)

`Chrono.Proofs.Rfc3339OffsetData` instantiates the model bodies with these lists and proves that the results ARE
`Scan.timezone_offset`, `Format.OffsetFormat.format`, `Format.write_hundreds`, `Scan.number`.
Output: lean/Chrono/Extracted/Rfc3339Offset.lean.
"""
import os
import re

SCAN = "src/format/scan.rs"
FMT = "src/format/formatting.rs"

TOKEN = re.compile(
    r"b'(?P<byte>\\.|[^'\\])'"
    r"|(?<![\w])'(?P<chr>\\.|[^'\\])'"
    r"|(?<![\w.])(?P<int>\d[\d_]*)(?:u8|u16|u32|u64|i8|i16|i32|i64|usize|isize)?(?!\w)(?!\.[^.])")

ESC = {"\\n": "\n", "\\t": "\t", "\\r": "\r", "\\0": "\0", "\\\\": "\\", "\\'": "'"}


def block_after(src, start):
    i = src.index("{", start)
    depth, j = 0, i
    while j < len(src):
        if src[j] == "{":
            depth += 1
        elif src[j] == "}":
            depth -= 1
            if depth == 0:
                return src[i:j + 1]
        j += 1
    raise LookupError("unbalanced block")


def fn_body(src, pat):
    ms = list(re.finditer(pat, src))
    if len(ms) != 1:
        raise LookupError(f"{pat}: {len(ms)} matches")
    return block_after(src, ms[0].start())


def lits(body):
    """(integers and byte literals in order, char literals in order)"""
    body = re.sub(r'"[^"\n]*"', '""', body)
    nums, chars = [], []
    for m in TOKEN.finditer(body):
        if m.group("byte") is not None:
            c = ESC.get(m.group("byte"), m.group("byte"))
            if len(c) != 1 or ord(c) > 255:
                raise LookupError("byte literal " + m.group(0))
            nums.append(ord(c))
        elif m.group("chr") is not None:
            c = ESC.get(m.group("chr"), m.group("chr"))
            if len(c) != 1:
                raise LookupError("char literal " + m.group(0))
            chars.append(c)
        else:
            nums.append(int(m.group("int").replace("_", "")))
    return nums, chars


def previous():
    p = os.path.join(os.path.dirname(os.path.dirname(os.path.dirname(os.path.abspath(__file__)))),
                     "lean", "Chrono", "Extracted", "Rfc3339Offset.lean")
    prev = {}
    try:
        text = open(p).read()
    except OSError:
        return prev
    for m in re.finditer(r"def (RFC3339_\w+) : List (?:Int|Nat) := \[([^\]]*)\]", text):
        prev[m.group(1)] = [int(x) for x in m.group(2).split(",") if x.strip()]
    for m in re.finditer(r"def (RFC3339_\w+) : List \(List Nat\) := \[(.*)\]\n", text):
        prev[m.group(1)] = [[int(x) for x in g.split(",") if x.strip()] for g in re.findall(r"\[([^\]]*)\]", m.group(2))]
    m = re.search(r"def RFC3339_SECFORM_VARIANTS : List String := \[([^\]]*)\]", text)
    if m:
        prev["RFC3339_SECFORM_VARIANTS"] = re.findall(r'"(\w+)"', m.group(1))
    return prev


def run(api):
    prev = previous()
    scan = api.strip_comments(api.read(SCAN))
    fmt = api.strip_comments(api.read(FMT))

    def tz():
        return lits(fn_body(scan, r"pub\(crate\) fn timezone_offset<F>\("))

    def offfmt():
        imp = fn_body(fmt, r"impl OffsetFormat\s*\{")
        return lits(fn_body(imp, r"fn format\(&self, w: &mut impl Write, off: FixedOffset\)"))

    def ascii_points(chars):
        if any(ord(c) > 127 for c in chars):
            raise LookupError("non-ASCII char literal in OffsetFormat::format")
        return [ord(c) for c in chars]

    def no_chars(pair, what):
        if pair[1]:
            raise LookupError("unexpected char literal in " + what)
        return pair[0]

    items = [
        ("RFC3339_TZ_LITS", SCAN, lambda: tz()[0], "List Nat"),
        ("RFC3339_TZ_CHARS", SCAN, lambda: [list(c.encode("utf-8")) for c in tz()[1]], "List (List Nat)"),
        ("RFC3339_OFFFMT_LITS", FMT, lambda: offfmt()[0], "List Int"),
        ("RFC3339_OFFFMT_CHARS", FMT, lambda: ascii_points(offfmt()[1]), "List Nat"),
        ("RFC3339_HUNDREDS_LITS", FMT,
         lambda: no_chars(lits(fn_body(fmt, r"pub\(crate\) fn write_hundreds\(")), "write_hundreds"), "List Int"),
        ("RFC3339_NUMBER_LITS", SCAN,
         lambda: no_chars(lits(fn_body(scan, r"pub\(super\) fn number\(")), "scan::number"), "List Nat"),
    ]
    def variants():
        m = re.search(r"pub enum SecondsFormat\s*\{", fmt)
        if not m:
            raise LookupError("enum SecondsFormat not found")
        body = block_after(fmt, m.start())[1:-1]
        body = re.sub(r"#\[[^\]]*\]", "", body)
        names = [x.strip() for x in body.split(",") if x.strip()]
        if not names or any(not re.match(r"^\w+$", n) for n in names):
            raise LookupError("SecondsFormat variants: " + repr(names))
        return names

    text = api.hdr + "namespace Chrono.Extracted\n\n"
    val = api.section("RFC3339_SECFORM_VARIANTS", FMT, variants, prev.get("RFC3339_SECFORM_VARIANTS"))
    if val is not None:
        api.keep("RFC3339_SECFORM_VARIANTS", val)
        text += "def RFC3339_SECFORM_VARIANTS : List String := [" + ", ".join('"' + v + '"' for v in val) + "]\n"
    for key, rel, fn, ty in items:
        val = api.section(key, rel, fn, prev.get(key))
        if val is None:
            continue
        api.keep(key, val)
        if ty == "List (List Nat)":
            shown = ", ".join("[" + ", ".join(str(b) for b in v) + "]" for v in val)
        else:
            shown = ", ".join(str(v) for v in val)
        text += f"def {key} : {ty} := [{shown}]\n"
    text += "\nend Chrono.Extracted\n"
    api.emit("Rfc3339Offset.lean", text)
