"""C13: the numeric-item table of `parse_internal` (src/format/parse.rs).

    let (width, signed, set): (usize, bool, Setter) = match *spec {
        Year => (4, true, Parsed::set_year),
        …
        Timestamp => (usize::MAX, true, Parsed::set_timestamp),

Every arm `Variant => (width, signed, setter)` becomes a row `(variant, width, signed, setter)` of
`Chrono.Extracted.PARSE_NUMERIC_TABLE` (source order; `usize::MAX` is written as width 0, the setter
is its last path segment).  `Chrono.Props.C13.numeric_table_extracted` states that the model's
`Parse.numericSpec` is exactly this table, so a flipped `signed` flag, a changed width or a swapped
setter in the source makes that theorem fail on the re-extracted data.
Also extracted: the two `scan::number(&s[1..], 1, usize::MAX)` calls of the signed branch and the
`scan::number(s, 1, width)` calls (minimum digits, maximum) as `PARSE_NUMERIC_CALLS`.
Output: lean/Chrono/Extracted/ParseTable.lean.
"""
import re

SRC = "src/format/parse.rs"
KEY = "C13.parse numeric table"
KEY2 = "C13.parse number calls"


def run(api):
    src = api.strip_comments(api.read(SRC))

    def table():
        m = re.search(r"let \(width, signed, set\)[^=]*=\s*match \*spec \{(.*?)\n\s*\};", src, re.S)
        if not m:
            raise LookupError("numeric table not found")
        rows = []
        for v, w, s, f in re.findall(r"(\w+)\s*=>\s*\(\s*([\w:]+)\s*,\s*(true|false)\s*,\s*([\w:]+)\s*\)", m.group(1)):
            width = 0 if w == "usize::MAX" else api.ev(w, {})
            rows.append([v, int(width), s == "true", f.split("::")[-1]])
        if len(rows) < 10:
            raise LookupError(f"only {len(rows)} rows")
        return rows

    def calls():
        m = re.search(r"s = s\.trim_start\(\);\s*let v = if signed \{(.*?)\n\s*set\(parsed, v\)\?;", src, re.S)
        if not m:
            raise LookupError("numeric scan block not found")
        out = []
        for arg, lo, hi in re.findall(r"scan::number\(\s*([^,]+),\s*(\d+)\s*,\s*([\w:]+)\s*\)", m.group(1)):
            out.append([arg.strip(), int(lo), hi])
        if len(out) != 4:
            raise LookupError(f"{len(out)} scan::number calls")
        return out

    rows = api.section(KEY, SRC, table, api.snap(KEY))
    cs = api.section(KEY2, SRC, calls, api.snap(KEY2))
    if rows is None or cs is None:
        for k in (KEY, KEY2):
            if api.snap(k) is not None:
                api.keep(k, api.snap(k))
        return
    api.keep(KEY, rows)
    api.keep(KEY2, cs)
    t = api.hdr + "namespace Chrono.Extracted\n\n"
    t += "/-- rows of the `match *spec` in `parse_internal`: (Numeric variant, width with 0 = usize::MAX,\nsigned, setter) -/\n"
    t += "def PARSE_NUMERIC_TABLE : List (String × Nat × Bool × String) := [\n  "
    t += ",\n  ".join(f'("{v}", {w}, {"true" if s else "false"}, "{f}")' for v, w, s, f in rows) + "]\n\n"
    t += "/-- the `scan::number` calls of the numeric arm, in source order: (argument, min, max) -/\n"
    t += "def PARSE_NUMERIC_CALLS : List (String × Nat × String) := [\n  "
    t += ",\n  ".join(f'("{a}", {lo}, "{hi}")' for a, lo, hi in cs) + "]\n\n"
    t += "end Chrono.Extracted\n"
    api.emit("ParseTable.lean", t)
