"""C03: the decision-relevant tokens of the date / date-time arithmetic functions the model mirrors.

The bodies of these functions use bare literals (365, 400, 146_097, 7, i32::MAX, …) and a handful of
comparisons; the translator records, per function, the ordered list of
  * integer literals (decimal, 0b/0o/0x; `_` removed; rendered in decimal),
  * `iNN::MAX` / `iNN::MIN` / `uNN::MAX` tokens,
  * comparison operators written with surrounding spaces (`<`, `<=`, `>`, `>=`, `==`, `!=`),
  * the names of the chrono functions called (`checked_add`, `add_days`, `succ_opt`, …),
  * unary negations (`neg`).
`Chrono.Props.C03.tokens_ok` states what these lists are for the code the model was written against;
a changed limit, unit, comparison or callee makes that theorem fail on the re-extracted data.
Output: lean/Chrono/Extracted/ArithToks.lean.
"""
import os
import re

DATE = "src/naive/date/mod.rs"
NDT = "src/naive/datetime/mod.rs"
DT = "src/datetime/mod.rs"

ITEMS = [
    ("date_checked_add_days", DATE, r"pub const fn checked_add_days\(self, days: Days\)"),
    ("date_checked_sub_days", DATE, r"pub const fn checked_sub_days\(self, days: Days\)"),
    ("date_add_days", DATE, r"pub\(crate\) const fn add_days\(self, days: i32\)"),
    ("date_checked_add_signed", DATE, r"pub const fn checked_add_signed\(self, rhs: TimeDelta\)"),
    ("date_checked_sub_signed", DATE, r"pub const fn checked_sub_signed\(self, rhs: TimeDelta\)"),
    ("date_signed_duration_since", DATE, r"pub const fn signed_duration_since\(self, rhs: NaiveDate\)"),
    ("cycle_to_yo", DATE, r"const fn cycle_to_yo\("),
    ("yo_to_cycle", DATE, r"const fn yo_to_cycle\("),
    ("div_mod_floor", DATE, r"const fn div_mod_floor\("),
    ("days_iter", DATE, r"impl Iterator for NaiveDateDaysIterator"),
    ("days_iter_back", DATE, r"impl DoubleEndedIterator for NaiveDateDaysIterator"),
    ("weeks_iter", DATE, r"impl Iterator for NaiveDateWeeksIterator"),
    ("weeks_iter_back", DATE, r"impl DoubleEndedIterator for NaiveDateWeeksIterator"),
    ("date_add_delta_op", DATE, r"impl Add<TimeDelta> for NaiveDate \{"),
    ("date_sub_delta_op", DATE, r"impl Sub<TimeDelta> for NaiveDate \{"),
    ("date_add_days_op", DATE, r"impl Add<Days> for NaiveDate \{"),
    ("date_sub_days_op", DATE, r"impl Sub<Days> for NaiveDate \{"),
    ("ndt_checked_add_signed", NDT, r"pub const fn checked_add_signed\(self, rhs: TimeDelta\)"),
    ("ndt_checked_sub_signed", NDT, r"pub const fn checked_sub_signed\(self, rhs: TimeDelta\)"),
    ("ndt_signed_duration_since", NDT, r"pub const fn signed_duration_since\(self, rhs: NaiveDateTime\)"),
    ("ndt_add_delta_op", NDT, r"impl Add<TimeDelta> for NaiveDateTime \{"),
    ("ndt_sub_delta_op", NDT, r"impl Sub<TimeDelta> for NaiveDateTime \{"),
    ("dt_checked_add_signed", DT, r"pub fn checked_add_signed\(self, rhs: TimeDelta\)"),
    ("dt_checked_sub_signed", DT, r"pub fn checked_sub_signed\(self, rhs: TimeDelta\)"),
    ("dt_signed_duration_since", DT, r"pub fn signed_duration_since<Tz2: TimeZone>\("),
    ("dt_add_delta_op", DT, r"impl<Tz: TimeZone> Add<TimeDelta> for DateTime<Tz> \{"),
    ("dt_sub_delta_op", DT, r"impl<Tz: TimeZone> Sub<TimeDelta> for DateTime<Tz> \{"),
    ("dt_add_assign_delta_op", DT, r"impl<Tz: TimeZone> AddAssign<TimeDelta> for DateTime<Tz> \{"),
    ("dt_sub_assign_delta_op", DT, r"impl<Tz: TimeZone> SubAssign<TimeDelta> for DateTime<Tz> \{"),
]

CALLS = ("checked_add_signed", "checked_sub_signed", "checked_add_days", "checked_sub_days", "checked_add",
         "checked_sub", "add_days", "succ_opt", "pred_opt", "signed_duration_since", "num_days", "num_weeks",
         "overflowing_add_signed", "overflowing_sub_signed", "try_seconds", "try_days", "yo_to_cycle",
         "cycle_to_yo", "div_mod_floor", "from_ordinal_and_flags", "from_yof", "from_year_mod_400",
         "div_euclid", "rem_euclid", "leap_year", "from_utc_datetime", "expect", "try_opt")

TOKEN = re.compile(
    r"(?<![\w.])(0b[01_]+|0o[0-7_]+|0x[0-9a-fA-F_]+|\d[\d_]*)(?:u8|u16|u32|u64|i8|i16|i32|i64|usize)?(?![\w.])"
    r"|\b([iu](?:8|16|32|64|size)::(?:MAX|MIN))\b"
    r"| (<=|>=|==|!=|<|>) "
    r"|\b(" + "|".join(CALLS) + r")\b(?=\s*[!(])"
    r"|[=(,]\s*(-)(?=[\w(])")


def block_after(src, start):
    i = src.index("{", start)
    depth, j = 0, i
    while j < len(src):
        if src[j] == "{":
            depth += 1
        elif src[j] == "}":
            depth -= 1
            if depth == 0:
                return src[i:j + 1]
        j += 1
    raise LookupError("unbalanced block")


def tokens(text):
    # string literals (the `expect` messages) carry no logic
    text = re.sub(r'"(?:[^"\\]|\\.)*"', '""', text)
    out = []
    for m in TOKEN.finditer(text):
        num, lim, cmp_, call, neg = m.groups()
        if num is not None:
            out.append(str(int(num.replace("_", ""), 0)))
        elif lim is not None:
            out.append(lim)
        elif cmp_ is not None:
            out.append(cmp_)
        elif call is not None:
            out.append(call)
        elif neg is not None:
            out.append("neg")
    return out


def previous():
    p = os.path.join(os.path.dirname(os.path.dirname(os.path.dirname(os.path.abspath(__file__)))),
                     "lean", "Chrono", "Extracted", "ArithToks.lean")
    prev = {}
    try:
        for m in re.finditer(r"def (ARITH_TOKS_\w+) : List String := \[([^\]]*)\]", open(p).read()):
            prev[m.group(1)] = re.findall(r'"([^"]*)"', m.group(2))
    except OSError:
        pass
    return prev


def run(api):
    prev = previous()
    cache = {}
    def src_of(rel):
        if rel not in cache:
            cache[rel] = api.strip_comments(api.read(rel))
        return cache[rel]
    text = api.hdr + "namespace Chrono.Extracted\n\n"
    for name, rel, pat in ITEMS:
        key = "ARITH_TOKS_" + name
        def get(rel=rel, pat=pat):
            src = src_of(rel)
            ms = list(re.finditer(pat, src))
            if len(ms) != 1:
                raise LookupError(f"{pat}: {len(ms)} matches")
            toks = tokens(block_after(src, ms[0].start()))
            if not toks:
                raise LookupError(f"{pat}: no tokens")
            return toks
        val = api.section(key, rel, get, prev.get(key))
        if val is None:
            continue
        text += f"def {key} : List String := [{', '.join(chr(34) + v + chr(34) for v in val)}]\n"
    text += "\nend Chrono.Extracted\n"
    api.emit("ArithToks.lean", text)
