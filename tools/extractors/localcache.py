"""C18: data the Local zone-selection / cache model uses, read from the current Rust sources:
the zoneinfo search directories, the TZDB location of the fallback, the special names, the reuse
window of the per-thread cache.  Emits lean/Chrono/Extracted/LocalCache.lean.  If an item cannot be
located the committed file is left as it is and the item is reported stale."""
import re


def run(api):
    tz = api.strip_comments(api.read("src/offset/local/tz_info/timezone.rs"))
    ux = api.strip_comments(api.read("src/offset/local/unix.rs"))

    def dirs():
        m = re.search(r"#\[cfg\(unix\)\]\s*const ZONE_INFO_DIRECTORIES\s*:\s*\[&str;\s*(\d+)\]\s*=\s*\[(.*?)\]\s*;", tz, re.S)
        toks = re.findall(r'"[^"]*"', m.group(2))
        assert len(toks) == int(m.group(1))
        return [api.rust_bytes(t) for t in toks]

    def tzdb():
        m = re.search(r'#\[cfg\(not\(any\(target_os = "android", target_os = "aix"\)\)\)\]\s*const TZDB_LOCATION\s*:\s*&str\s*=\s*("[^"]*")\s*;', ux)
        return api.rust_bytes(m.group(1))

    def special_name():
        # `if tz_string == "localtime" { return Self::from_tz_data(&fs::read("/etc/localtime")?); }`
        m = re.search(r'if tz_string == ("[^"]*")\s*\{\s*return Self::from_tz_data\(&fs::read\(("[^"]*")\)\?\);', tz)
        return [api.rust_bytes(m.group(1)), api.rust_bytes(m.group(2))]

    def unset_name():
        # `None => Self::from_posix_tz("localtime")`
        m = re.search(r'None => Self::from_posix_tz\(("[^"]*")\)', tz)
        return api.rust_bytes(m.group(1))

    def meta_path():
        m = re.search(r'None => match fs::symlink_metadata\(("[^"]*")\)', ux)
        return api.rust_bytes(m.group(1))

    def env_name():
        ms = re.findall(r'env::var\(("[^"]*")\)', ux)
        assert len(ms) == 2 and ms[0] == ms[1]      # Cache::default and Cache::offset read the same variable
        return api.rust_bytes(ms[0])

    def window():
        m = re.search(r"Ok\(d\) if d\.as_secs\(\) (<=?) (\d+) => \(\)", ux)
        return [1 if m.group(1) == "<" else 0, int(m.group(2))]

    def env_source():
        # what `Source::Environment` remembers of TZ and what `Cache::offset` compares (finding F33: it
        # was a `DefaultHasher` hash; two values with equal hash made a change of TZ go unnoticed).
        # 1 = the text itself, compared as text, and no hasher anywhere in the file; 0 = anything else
        decl = re.search(r"enum Source\s*\{\s*LocalTime\s*\{\s*mtime\s*:\s*SystemTime\s*\}\s*,\s*Environment\s*\{\s*tz\s*:\s*String\s*\}\s*,?\s*\}", ux)
        new = re.search(r"Some\(tz\)\s*=>\s*Source::Environment\s*\{\s*tz\s*:\s*tz\.to_owned\(\)\s*\}", ux)
        cmp_ = re.search(r"\(Source::Environment\s*\{\s*tz\s*:\s*old_tz\s*\}\s*,\s*Source::Environment\s*\{\s*tz\s*\}\)\s*if\s+old_tz\s*!=\s*tz\s*=>\s*\{\s*true\s*\}", ux)
        hashed = re.search(r"[Hh]ash", ux)
        return 1 if (decl and new and cmp_ and not hashed) else 0

    def colon():
        m = re.search(r"if chars\.next\(\) == Some\('(.)'\)", tz)
        return ord(m.group(1))

    items = {}
    for key, where, fn in [
        ("C18.ZONE_INFO_DIRECTORIES", "src/offset/local/tz_info/timezone.rs", dirs),
        ("C18.TZDB_LOCATION", "src/offset/local/unix.rs", tzdb),
        ("C18.localtime name/path", "src/offset/local/tz_info/timezone.rs", special_name),
        ("C18.unset name", "src/offset/local/tz_info/timezone.rs", unset_name),
        ("C18.metadata path", "src/offset/local/unix.rs", meta_path),
        ("C18.env name", "src/offset/local/unix.rs", env_name),
        ("C18.reuse window", "src/offset/local/unix.rs", window),
        ("C18.file prefix", "src/offset/local/tz_info/timezone.rs", colon),
        ("C18.env source", "src/offset/local/unix.rs", env_source),
    ]:
        items[key] = api.section(key, where, fn, None)
    if any(v is None for v in items.values()):
        return  # keep the committed snapshot file; stale items are in the report
    bl = api.bytes_lit
    t = api.hdr + "namespace Chrono.Extracted.LocalCache\n\n"
    t += "/-- `ZONE_INFO_DIRECTORIES` (unix), in search order -/\n"
    t += "def ZONE_INFO_DIRECTORIES : List (List Nat) := [\n  " + ",\n  ".join(bl(b) for b in items["C18.ZONE_INFO_DIRECTORIES"]) + "]\n"
    t += "/-- `TZDB_LOCATION` (not android, not aix): where `fallback_timezone` reads the named system zone -/\n"
    t += f"def TZDB_LOCATION : List Nat := {bl(items['C18.TZDB_LOCATION'])}\n"
    t += "/-- the TZ value that means `/etc/localtime`, and the path read for it -/\n"
    t += f"def LOCALTIME_NAME : List Nat := {bl(items['C18.localtime name/path'][0])}\n"
    t += f"def LOCALTIME_PATH : List Nat := {bl(items['C18.localtime name/path'][1])}\n"
    t += "/-- what `TimeZone::local(None)` passes to `from_posix_tz` -/\n"
    t += f"def UNSET_NAME : List Nat := {bl(items['C18.unset name'])}\n"
    t += "/-- the path whose (symlink) mtime `Source::new(None)` records -/\n"
    t += f"def METADATA_PATH : List Nat := {bl(items['C18.metadata path'])}\n"
    t += f"def ENV_NAME : List Nat := {bl(items['C18.env name'])}\n"
    t += "/-- `Ok(d) if d.as_secs() < 1`: comparison is strict? / the literal -/\n"
    t += f"def REUSE_STRICT : Bool := {'true' if items['C18.reuse window'][0] else 'false'}\n"
    t += f"def REUSE_SECS : Nat := {items['C18.reuse window'][1]}\n"
    t += "/-- the prefix character that forces a file lookup -/\n"
    t += f"def FILE_PREFIX : Nat := {items['C18.file prefix']}\n"
    t += "/-- `Source::Environment { tz: String }` built by `tz.to_owned()` and compared by `old_tz != tz`,\n"
    t += "no hasher in unix.rs (F33 repaired)? -/\n"
    t += f"def ENV_SOURCE_IS_TEXT : Bool := {'true' if items['C18.env source'] else 'false'}\n"
    t += "\nend Chrono.Extracted.LocalCache\n"
    api.emit("LocalCache.lean", t)
