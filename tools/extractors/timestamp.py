"""C02: the integer literals of the timestamp functions the model mirrors, in source order.

The bodies use bare literals (86_400, 1000, 1_000_000, 1_000_000_000) rather than named constants, so
the translator records, per function, the ordered list of integer literals (and named constants given
below) of its body.  `Chrono.Props.C02.literals_ok` states what these lists are for the code the model
was written against; a changed unit, divisor or bound makes that theorem fail on the re-extracted data.
(`UNIX_EPOCH_DAY` itself is extracted into Consts.lean and used by the model directly.)
Output: lean/Chrono/Extracted/TsLits.lean.
"""
import os
import re

DT = "src/datetime/mod.rs"
NDT = "src/naive/datetime/mod.rs"

# (lean name, file, regex that finds the start of the item; the body is the brace block after it)
ITEMS = [
    ("timestamp", DT, r"pub const fn timestamp\(&self\)"),
    ("timestamp_millis", DT, r"pub const fn timestamp_millis\(&self\)"),
    ("timestamp_micros", DT, r"pub const fn timestamp_micros\(&self\)"),
    ("timestamp_nanos_opt", DT, r"pub const fn timestamp_nanos_opt\(&self\)"),
    ("timestamp_subsec_millis", DT, r"pub const fn timestamp_subsec_millis\(&self\)"),
    ("timestamp_subsec_micros", DT, r"pub const fn timestamp_subsec_micros\(&self\)"),
    ("from_timestamp", DT, r"pub const fn from_timestamp\("),
    ("from_timestamp_millis", DT, r"pub const fn from_timestamp_millis\("),
    ("from_timestamp_micros", DT, r"pub const fn from_timestamp_micros\("),
    ("from_timestamp_nanos", DT, r"pub const fn from_timestamp_nanos\("),
    ("from_system_time", DT, r"impl From<SystemTime> for DateTime<Utc>"),
    ("to_system_time", DT, r"impl<Tz: TimeZone> From<DateTime<Tz>> for SystemTime"),
    ("naive_from_timestamp_micros", NDT, r"pub const fn from_timestamp_micros\("),
    ("naive_from_timestamp_nanos", NDT, r"pub const fn from_timestamp_nanos\("),
]


def block_after(src, start):
    """text of the first balanced { … } block at or after `start`"""
    i = src.index("{", start)
    depth, j = 0, i
    while j < len(src):
        if src[j] == "{":
            depth += 1
        elif src[j] == "}":
            depth -= 1
            if depth == 0:
                return src[i:j + 1]
        j += 1
    raise LookupError("unbalanced block")


def literals(text, named):
    out = []
    for m in re.finditer(r"(?<![\w.])(?:(\d[\d_]*)(?:u8|u16|u32|u64|i8|i16|i32|i64|usize)?|(NANOS_PER_SEC))(?![\w.])", text):
        if m.group(1) is not None:
            out.append(int(m.group(1).replace("_", "")))
        else:
            out.append(named[m.group(2)])
    return out


def previous():
    p = os.path.join(os.path.dirname(os.path.dirname(os.path.dirname(os.path.abspath(__file__)))),
                     "lean", "Chrono", "Extracted", "TsLits.lean")
    prev = {}
    try:
        for m in re.finditer(r"def (TS_LITS_\w+) : List Int := \[([^\]]*)\]", open(p).read()):
            prev[m.group(1)] = [int(x) for x in m.group(2).split(",") if x.strip()]
    except OSError:
        pass
    return prev


def run(api):
    prev = previous()
    cache = {}
    def src_of(rel):
        if rel not in cache:
            cache[rel] = api.strip_comments(api.read(rel))
        return cache[rel]
    # value of NANOS_PER_SEC (src/time_delta.rs), read from the source
    def nanos_per_sec():
        m = re.search(r"const NANOS_PER_SEC: i32 = ([\d_]+);", src_of("src/time_delta.rs"))
        if not m:
            raise LookupError("NANOS_PER_SEC not found")
        return int(m.group(1).replace("_", ""))
    text = api.hdr + "namespace Chrono.Extracted\n\n"
    for name, rel, pat in ITEMS:
        key = "TS_LITS_" + name
        def get(rel=rel, pat=pat):
            src = src_of(rel)
            ms = list(re.finditer(pat, src))
            if len(ms) != 1:
                raise LookupError(f"{pat}: {len(ms)} matches")
            lits = literals(block_after(src, ms[0].start()), {"NANOS_PER_SEC": nanos_per_sec()})
            if not lits:
                raise LookupError(f"{pat}: no literals")
            return lits
        val = api.section(key, rel, get, prev.get(key))
        if val is None:
            continue
        text += f"def {key} : List Int := [{', '.join(str(v) for v in val)}]\n"
    text += "\nend Chrono.Extracted\n"
    api.emit("TsLits.lean", text)
