"""C12: the specifier -> item table of `StrftimeItems::parse_next_item` (src/format/strftime.rs),
as built WITHOUT the `unstable-locales` feature, translated arm by arm into Lean `Item` terms:

  SPEC_TABLE   plain arms  'A' => fixed(..), 'D' => queue![..], 'X' => queue_from_slice!(T_FMT), ...
               as (letter, head item :: queued items)
  SPEC_Z       the two branches of the 'z' arm (is_alternate, item)
  SPEC_COLON   the `remainder.starts_with("..")` ladder of the ':' arm, in source order
  SPEC_DOT     the arms of `'.' => match next!()`: (char, item); for a digit the item is the one
               produced after the following 'f'
  SPEC_FRAC    the '3' | '6' | '9' arms: (digit, item produced after 'f')
  SPEC_PAD     the padding-override characters, SPEC_ALTERNATES the bytes of HAVE_ALTERNATES
  SPEC_SLICES  the static composite slices D_FMT, D_T_FMT, T_FMT, T_FMT_AMPM

`Chrono.Props.C12.spec_table_ok` states (by `decide`) that the model's `specTable`, `zItem`, `padOf`
and slices are exactly these; a changed, added or removed arm makes that theorem fail on the
re-extracted data.  Output: lean/Chrono/Extracted/SpecTable.lean.
"""
import os
import re

SRC = "src/format/strftime.rs"


def lean_ctor(name):
    """Rust variant name -> Lean constructor name of Model/Items.lean"""
    if name.isupper() or re.fullmatch(r"[A-Z]+\d+", name):
        return name.lower()
    return name[0].lower() + name[1:]


def rust_str_bytes(lit):
    body = lit[1:-1]
    out = []
    i = 0
    while i < len(body):
        ch = body[i]
        if ch == "\\":
            nxt = body[i + 1]
            out.append({"n": 10, "t": 9, "\\": 92, '"': 34, "r": 13, "0": 0}[nxt])
            i += 2
        else:
            out.extend(ch.encode("utf-8"))
            i += 1
    return out


def item(expr):
    """one item expression -> Lean term"""
    e = expr.strip().rstrip(",").strip()
    m = re.fullmatch(r"(num0|nums|num)\(\s*(?:Numeric::)?(\w+)\s*\)", e)
    if m:
        pad = {"num0": "zero", "nums": "space", "num": "none"}[m.group(1)]
        return f"Item.numeric .{lean_ctor(m.group(2))} .{pad}"
    m = re.fullmatch(r"fixed\(\s*Fixed::(\w+)\s*\)", e)
    if m:
        return f"Item.fixed .{lean_ctor(m.group(1))}"
    m = re.fullmatch(r"internal_fixed\(\s*(?:InternalInternal::)?(\w+)\s*\)", e)
    if m:
        return f"Item.fixed .{lean_ctor(m.group(1))}"
    m = re.fullmatch(r"(?:Item::)?(Literal|Space)\(\s*(\"(?:[^\"\\]|\\.)*\")\s*\)", e)
    if m:
        kind = "literal" if m.group(1) == "Literal" else "space"
        return f"Item.{kind} [{', '.join(str(b) for b in rust_str_bytes(m.group(2)))}]"
    raise LookupError("unrecognised item expression: " + e)


def split_top(s):
    """split at top-level commas"""
    out, depth, cur, in_str = [], 0, "", False
    i = 0
    while i < len(s):
        ch = s[i]
        if in_str:
            cur += ch
            if ch == "\\":
                cur += s[i + 1]
                i += 1
            elif ch == '"':
                in_str = False
        elif ch == '"':
            in_str = True
            cur += ch
        elif ch in "([{":
            depth += 1
            cur += ch
        elif ch in ")]}":
            depth -= 1
            cur += ch
        elif ch == "," and depth == 0:
            out.append(cur)
            cur = ""
        else:
            cur += ch
        i += 1
    if cur.strip():
        out.append(cur)
    return [x for x in out if x.strip()]


def items_of(text):
    return [item(x) for x in split_top(text)]


def block_after(src, start, open_ch="{", close_ch="}"):
    i = src.index(open_ch, start)
    depth, j = 0, i
    while j < len(src):
        if src[j] == open_ch:
            depth += 1
        elif src[j] == close_ch:
            depth -= 1
            if depth == 0:
                return src[i + 1:j]
        j += 1
    raise LookupError("unbalanced block")


def char_code(tok):
    body = tok[1:-1]
    if body.startswith("\\"):
        return {"n": 10, "t": 9, "\\": 92, "'": 39}[body[1]]
    return ord(body)


def top_level_arms(body):
    """[(pattern text, arm text)] of a `match` body, split at depth-0 `=>`"""
    arms = []
    depth, i, start = 0, 0, 0
    n = len(body)
    pieces = []   # (pattern_start, arrow_pos)
    in_str = False
    while i < n:
        ch = body[i]
        if in_str:
            if ch == "\\":
                i += 1
            elif ch == '"':
                in_str = False
        elif ch == '"':
            in_str = True
        elif ch == "'" and i + 2 < n and (body[i + 2] == "'" or (body[i + 1] == "\\" and body[i + 3] == "'")):
            i += 3 if body[i + 1] == "\\" else 2     # a char literal
        elif ch in "([{":
            depth += 1
        elif ch in ")]}":
            depth -= 1
        elif ch == "=" and body[i:i + 2] == "=>" and depth == 0:
            pieces.append(i)
        i += 1
    # pattern of arm k starts after the end of arm k-1: find it by scanning back from the arrow to
    # the previous top-level `,` or `}` or the start
    starts = []
    for a in pieces:
        j = a - 1
        while j >= 0 and body[j] not in ",}":
            j -= 1
        # `#[cfg(...)]` attributes contain neither; the pattern text may include them
        starts.append(j + 1)
    for k, a in enumerate(pieces):
        end = starts[k + 1] if k + 1 < len(pieces) else n
        arms.append((body[starts[k]:a].strip(), body[a + 2:end].strip().rstrip(",").strip()))
    return arms


def extract(api):
    src = api.strip_comments(api.read(SRC))
    cut = src.find("#[cfg(test)]\nmod tests")
    if cut > 0:
        src = src[:cut]
    fn = src[src.index("fn parse_next_item("):]
    # static slices
    slices = {}
    for m in re.finditer(r"static (\w+): &\[Item<'static>\] =\s*&\[", fn):
        body = block_after(fn, m.end() - 1, "[", "]")
        slices[m.group(1)] = items_of(body)
    # pad override
    pad = []
    pm = fn.index("let pad_override = match spec")
    for pat, arm in top_level_arms(block_after(fn, pm)):
        m = re.fullmatch(r"Some\(Pad::(\w+)\)", arm)
        if m:
            pad.append((char_code(pat), lean_ctor(m.group(1))))
    alt = rust_str_bytes(re.search(r'const HAVE_ALTERNATES: &str = ("[^"]*");', src).group(1))
    # the big match
    mm = fn.index("let item = match spec")
    arms = top_level_arms(block_after(fn, mm))
    table, zarms, colon, dot, frac = [], [], [], [], []
    for pat, arm in arms:
        if 'cfg(feature = "unstable-locales")' in pat:
            continue
        pat = re.sub(r"#\[cfg\([^\]]*\)\]", "", pat).strip()
        if not pat.startswith("'"):
            continue            # the catch-all `c => { error }`
        codes = [char_code(t.strip()) for t in pat.split("|")]
        if arm.startswith("{") and arm.endswith("}"):
            inner = arm[1:-1].strip()
        else:
            inner = arm
        if codes == [ord("z")]:
            m = re.search(r"if is_alternate\s*\{(.*?)\}\s*else\s*\{(.*?)\}", inner, re.S)
            zarms = [("true", item(m.group(1))), ("false", item(m.group(2)))]
            continue
        if codes == [ord(":")]:
            for m in re.finditer(r"starts_with\(\s*('[^']*'|\"[^\"]*\")\s*\)\s*\{(.*?)\}", inner, re.S):
                lit = m.group(1)
                bs = [char_code(lit)] if lit.startswith("'") else rust_str_bytes(lit)
                it = [ln for ln in m.group(2).split(";") if "fixed(" in ln][-1]
                colon.append((bs, item(it.strip())))
            continue
        if codes == [ord(".")]:
            sub = top_level_arms(block_after(inner, inner.index("match next!()")))
            for p2, a2 in sub:
                if not p2.startswith("'"):
                    continue
                if a2.startswith("match next!()"):
                    for p3, a3 in top_level_arms(block_after(a2, 0)):
                        if p3 == "'f'":
                            dot.append((char_code(p2), item(a3)))
                else:
                    dot.append((char_code(p2), item(a2)))
            continue
        if codes[0] in (ord("3"), ord("6"), ord("9")):
            for p3, a3 in top_level_arms(block_after(inner, inner.index("match next!()"))):
                if p3 == "'f'":
                    frac.append((codes[0], item(a3)))
            continue
        m = re.fullmatch(r"queue!\[(.*)\]", inner, re.S)
        if m:
            its = items_of(m.group(1))
        else:
            m = re.fullmatch(r"queue_from_slice!\((\w+)\)", inner)
            its = slices[m.group(1)] if m else [item(inner)]
        for c in codes:
            table.append((c, its))
    if len(table) < 40 or len(zarms) != 2 or len(colon) != 3 or len(dot) != 4 or len(frac) != 3 or len(pad) != 3:
        raise LookupError("strftime arms not recognised: %d %d %d %d %d %d" % (len(table), len(zarms), len(colon), len(dot), len(frac), len(pad)))
    table.sort(key=lambda e: e[0])
    t = api.hdr + "import Chrono.Model.Items\nnamespace Chrono.Extracted\nopen Chrono.M\n\n"
    t += "/-- plain arms of `match spec`: (letter, head item :: queued items) -/\n"
    t += "def SPEC_TABLE : List (Nat × List Item) := [\n  " + ",\n  ".join(
        f"({c}, [{', '.join(its)}])" for c, its in table) + "]\n\n"
    t += "def SPEC_Z : List (Bool × Item) := [" + ", ".join(f"({b}, {it})" for b, it in zarms) + "]\n\n"
    t += "def SPEC_COLON : List (List Nat × Item) := [" + ", ".join(
        f"([{', '.join(map(str, bs))}], {it})" for bs, it in colon) + "]\n\n"
    t += "def SPEC_DOT : List (Nat × Item) := [" + ", ".join(f"({c}, {it})" for c, it in dot) + "]\n\n"
    t += "def SPEC_FRAC : List (Nat × Item) := [" + ", ".join(f"({c}, {it})" for c, it in frac) + "]\n\n"
    t += "def SPEC_PAD : List (Nat × Pad) := [" + ", ".join(f"({c}, Pad.{p})" for c, p in pad) + "]\n\n"
    t += "def SPEC_ALTERNATES : List Nat := [" + ", ".join(map(str, alt)) + "]\n\n"
    t += "def SPEC_SLICES : List (String × List Item) := [\n  " + ",\n  ".join(
        f"(\"{k}\", [{', '.join(v)}])" for k, v in sorted(slices.items())) + "]\n\n"
    t += "end Chrono.Extracted\n"
    return t


def run(api):
    prev_path = os.path.join(os.path.dirname(os.path.dirname(os.path.dirname(os.path.abspath(__file__)))),
                             "lean", "Chrono", "Extracted", "SpecTable.lean")
    prev = None
    if os.path.exists(prev_path):
        with open(prev_path) as f:
            prev = f.read()
    text = api.section("SPEC_TABLE", SRC, lambda: extract(api), prev)
    if text is not None:
        api.keep("SPEC_TABLE_sha", __import__("hashlib").sha256(text.encode()).hexdigest())
        api.emit("SpecTable.lean", text)
