"""Extractor plugin for C16: constants, tables and literal bounds of the TZif / POSIX-TZ readers
(src/offset/local/tz_info/{mod,parser,rule,timezone}.rs) -> lean/Chrono/Extracted/TzParse.lean.

Every item is located in the *current* Rust source; an item that cannot be located keeps its
snapshot value and is reported stale."""
import re

FALLBACK = {
    "tzp:consts": {"HOURS_PER_DAY": 24, "SECONDS_PER_HOUR": 3600, "SECONDS_PER_DAY": 86400, "DAYS_PER_WEEK": 7,
                   "SECONDS_PER_WEEK": 604800, "SECONDS_PER_28_DAYS": 2419200, "SECONDS_PER_MINUTE": 60,
                   "MINUTES_PER_HOUR": 60, "MONTHS_PER_YEAR": 12, "DAYS_PER_NORMAL_YEAR": 365,
                   "DAYS_PER_4_YEARS": 1461, "DAYS_PER_100_YEARS": 36524, "DAYS_PER_400_YEARS": 146097,
                   "UNIX_OFFSET_SECS": 951868800, "OFFSET_YEAR": 2000},
    "tzp:arrays": {"DAY_IN_MONTHS_NORMAL_YEAR": [31, 28, 31, 30, 31, 30, 31, 31, 30, 31, 30, 31],
                   "CUMUL_DAY_IN_MONTHS_NORMAL_YEAR": [0, 31, 59, 90, 120, 151, 181, 212, 243, 273, 304, 334],
                   "DAY_IN_MONTHS_LEAP_YEAR_FROM_MARCH": [31, 30, 31, 30, 31, 31, 30, 31, 30, 31, 31, 29]},
    "tzp:header": {"MAGIC": [84, 90, 105, 102], "VERSION_BYTES": [0, 50, 51], "RESERVED": 15,
                   "TYPE_RECORD": 6},
    "tzp:bounds": {"OFFSET_HOUR_MAX": 24, "OFFSET_MINUTE_MAX": 59, "OFFSET_SECOND_MAX": 59,
                   "RULE_HOUR_MAX": 24, "RULE_MINUTE_MAX": 59, "RULE_SECOND_MAX": 59,
                   "EXT_HOUR_MIN": -167, "EXT_HOUR_MAX": 167, "EXT_MINUTE_MAX": 59, "EXT_SECOND_MAX": 59,
                   "JULIAN1_MIN": 1, "JULIAN1_MAX": 365, "JULIAN0_MAX": 365,
                   "MONTH_MIN": 1, "MONTH_MAX": 12, "WEEK_MIN": 1, "WEEK_MAX": 5, "WEEKDAY_MAX": 6,
                   "NAME_MIN": 3, "NAME_MAX": 7, "DEFAULT_RULE_TIME": 7200, "DEFAULT_DST_DELTA": 3600},
}


def fn_body(src, name):
    """text of `fn name(...) ... { ... }` (brace matched)"""
    m = re.search(r"\bfn\s+" + re.escape(name) + r"\b", src)
    if not m:
        raise LookupError(name)
    i = src.index("{", m.end())
    depth, j = 0, i
    while True:
        if src[j] == "{":
            depth += 1
        elif src[j] == "}":
            depth -= 1
            if depth == 0:
                return src[i:j + 1]
        j += 1


def ranges(body):
    """all `(a..=b).contains` literal ranges of a body, in order"""
    return [(int(a), int(b)) for a, b in re.findall(r"\(\s*(-?\d+)\s*\.\.=\s*(-?\d+)\s*\)\s*\.contains", body)]


def run(api):
    mod = api.strip_comments(api.read("src/offset/local/tz_info/mod.rs"))
    rule = api.strip_comments(api.read("src/offset/local/tz_info/rule.rs"))
    tzr = api.strip_comments(api.read("src/offset/local/tz_info/timezone.rs"))
    par = api.strip_comments(api.read("src/offset/local/tz_info/parser.rs"))

    def consts():
        env = {}
        out = {}
        for src, names in ((mod, ["HOURS_PER_DAY", "SECONDS_PER_HOUR", "SECONDS_PER_DAY", "DAYS_PER_WEEK"]),
                           (tzr, ["SECONDS_PER_WEEK", "SECONDS_PER_28_DAYS"]),
                           (rule, ["SECONDS_PER_MINUTE", "MINUTES_PER_HOUR", "MONTHS_PER_YEAR",
                                   "DAYS_PER_NORMAL_YEAR", "DAYS_PER_4_YEARS", "DAYS_PER_100_YEARS",
                                   "DAYS_PER_400_YEARS", "UNIX_OFFSET_SECS", "OFFSET_YEAR"])):
            for n in names:
                v = api.ev(api.find_const(src, n), env)
                env[n] = v
                out[n] = v
        return out

    def arrays():
        out = {}
        for src, n in ((mod, "DAY_IN_MONTHS_NORMAL_YEAR"), (mod, "CUMUL_DAY_IN_MONTHS_NORMAL_YEAR"),
                       (rule, "DAY_IN_MONTHS_LEAP_YEAR_FROM_MARCH")):
            out[n] = [api.ev(x, {}) for x in api.find_array(src, n)]
            if len(out[n]) != 12:
                raise ValueError(n)
        return out

    def header():
        hb = fn_body(par, "new")  # first `fn new` in parser.rs is State::new; locate Header::new explicitly
        m = re.search(r"impl\s+Header\s*\{", par)
        hb = fn_body(par[m.end():], "new")
        magic = api.rust_bytes(re.search(r'magic\s*!=\s*\*(b"[^"]*")', hb).group(1))
        vers = [int(x, 16) for x in re.findall(r"\[0x([0-9a-fA-F]+)\]\s*=>\s*Version::V\d", hb)]
        if len(vers) != 3:
            raise ValueError("version bytes")
        # the reserved read is the read_exact whose result is discarded
        reserved = int(re.search(r"\n\s*cursor\.read_exact\((\d+)\)\?;", hb).group(1))
        rec = int(re.search(r"local_time_types\.chunks_exact\((\d+)\)", par).group(1))
        return {"MAGIC": magic, "VERSION_BYTES": vers, "RESERVED": reserved, "TYPE_RECORD": rec}

    def bounds():
        o = {}
        r = ranges(fn_body(rule, "parse_offset"))
        (_, o["OFFSET_HOUR_MAX"]), (_, o["OFFSET_MINUTE_MAX"]), (_, o["OFFSET_SECOND_MAX"]) = r
        if [a for a, _ in r] != [0, 0, 0]:
            raise ValueError("parse_offset lower bounds")
        r = ranges(fn_body(rule, "parse_rule_time"))
        (_, o["RULE_HOUR_MAX"]), (_, o["RULE_MINUTE_MAX"]), (_, o["RULE_SECOND_MAX"]) = r
        if [a for a, _ in r] != [0, 0, 0]:
            raise ValueError("parse_rule_time lower bounds")
        r = ranges(fn_body(rule, "parse_rule_time_extended"))
        (o["EXT_HOUR_MIN"], o["EXT_HOUR_MAX"]), (a1, o["EXT_MINUTE_MAX"]), (a2, o["EXT_SECOND_MAX"]) = r
        if (a1, a2) != (0, 0):
            raise ValueError("parse_rule_time_extended lower bounds")
        (o["JULIAN1_MIN"], o["JULIAN1_MAX"]), = ranges(fn_body(rule, "julian_1"))
        o["JULIAN0_MAX"] = int(re.search(r"julian_day_0\s*>\s*(\d+)", fn_body(rule, "julian_0")).group(1))
        mw = fn_body(rule, "month_weekday")
        (o["MONTH_MIN"], o["MONTH_MAX"]), (o["WEEK_MIN"], o["WEEK_MAX"]) = ranges(mw)
        o["WEEKDAY_MAX"] = int(re.search(r"week_day\s*>\s*(\d+)", mw).group(1))
        m = re.search(r"impl\s+TimeZoneName\s*\{", tzr)
        (o["NAME_MIN"], o["NAME_MAX"]), = ranges(fn_body(tzr[m.end():], "new"))
        m = re.search(r"impl\s+RuleDay\s*\{", rule)
        o["DEFAULT_RULE_TIME"] = api.ev(re.search(r"\(false,\s*_\)\s*=>\s*([^,]+),", fn_body(rule[m.end():], "parse")).group(1), {})
        o["DEFAULT_DST_DELTA"] = int(re.search(r"Some\(&b','\)\s*=>\s*std_offset\s*-\s*(\d+)", fn_body(rule, "from_tz_string")).group(1))
        return o

    t = api.hdr if isinstance(api.hdr, str) else "-- GENERATED by tools/extract.py from /repo sources; do not edit.\n"
    t += "namespace Chrono.Extracted.TzP\n\n"
    where = "src/offset/local/tz_info"
    data = {}
    for key, fn in (("tzp:consts", consts), ("tzp:arrays", arrays), ("tzp:header", header), ("tzp:bounds", bounds)):
        fb = api.snap(key) or FALLBACK[key]
        data[key] = api.section(key, where, fn, fb)
        api.keep(key, data[key])
    for k, v in data["tzp:consts"].items():
        t += f"def {k} : Int := {v}\n"
    t += "\n"
    for k, v in data["tzp:arrays"].items():
        t += f"def {k} : List Int := [" + ", ".join(str(x) for x in v) + "]\n"
    t += "\n"
    h = data["tzp:header"]
    t += "def MAGIC : List Nat := " + api.bytes_lit(h["MAGIC"]) + "\n"
    t += f"def VERSION_BYTE_V1 : Nat := {h['VERSION_BYTES'][0]}\n"
    t += f"def VERSION_BYTE_V2 : Nat := {h['VERSION_BYTES'][1]}\n"
    t += f"def VERSION_BYTE_V3 : Nat := {h['VERSION_BYTES'][2]}\n"
    t += f"def RESERVED : Nat := {h['RESERVED']}\n"
    t += f"def TYPE_RECORD : Nat := {h['TYPE_RECORD']}\n\n"
    for k, v in data["tzp:bounds"].items():
        t += f"def {k} : Int := {v}\n"
    t += "\nend Chrono.Extracted.TzP\n"
    api.emit("TzParse.lean", t)
