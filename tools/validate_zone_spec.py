#!/usr/bin/env python3
"""Validate the zone-lookup semantics that C05's theorems are stated against (`Spec.offAt`, proved
equal to the model's lookup-by-instant, reached through the driver op `tzl.at`) against CPython's
`zoneinfo`, an implementation that shares no code with chrono or with the Lean model.  The zone data
given to the driver come from an independent TZif + POSIX-TZ reader written here in Python (so chrono's
own parser is not involved either).  For every system zone: instants at each transition (−1, 0, +1 s)
and on a grid from 1800 to 2400.  Exit 0 if every compared offset agrees.
This validates the specification; it is not a proof obligation."""
import os, struct, subprocess, sys, re, datetime, zoneinfo
V = os.path.dirname(os.path.dirname(os.path.abspath(__file__)))
DRV = os.path.join(V, "lean", ".lake", "build", "bin", "chrono_model")
ZI = "/usr/share/zoneinfo"

def parse_tzif(b):
    def block(off, v):
        magic, ver = b[off:off+4], b[off+4:off+5]
        assert magic == b"TZif"
        isut, isstd, leap, timecnt, typecnt, charcnt = struct.unpack(">6l", b[off+20:off+44])
        p = off + 44
        ts = 8 if v else 4
        times = [struct.unpack(">q" if v else ">l", b[p+i*ts:p+(i+1)*ts])[0] for i in range(timecnt)]; p += timecnt*ts
        idx = list(b[p:p+timecnt]); p += timecnt
        types = [struct.unpack(">lBB", b[p+i*6:p+i*6+6]) for i in range(typecnt)]; p += typecnt*6
        chars = b[p:p+charcnt]; p += charcnt
        p += leap * (ts + 4) + isstd + isut
        return times, idx, types, chars, leap, p
    ver = b[4:5]
    t = block(0, False)
    footer = None
    if ver != b"\0":
        t = block(t[5], True)
        rest = b[t[5]:]
        if rest.startswith(b"\n") and b"\n" in rest[1:]:
            footer = rest[1:rest.index(b"\n", 1)].decode()
    times, idx, types, chars, leap, _ = t
    def name(i):
        e = chars.index(b"\0", i); return chars[i:e].decode()
    return times, idx, [(o, d, name(a)) for (o, d, a) in types], leap, footer

def parse_posix(s):
    pos = 0
    def nm():
        nonlocal pos
        if s[pos] == "<":
            e = s.index(">", pos); r = s[pos+1:e]; pos = e+1; return r
        m = re.match(r"[A-Za-z]+", s[pos:]); pos += m.end(); return m.group(0)
    def hms():
        nonlocal pos
        m = re.match(r"([+-]?)(\d+)(?::(\d+))?(?::(\d+))?", s[pos:]); pos += m.end()
        v = int(m.group(2))*3600 + int(m.group(3) or 0)*60 + int(m.group(4) or 0)
        return -v if m.group(1) == "-" else v
    std = nm(); stdoff = -hms()
    if pos >= len(s):
        return f"fixed({stdoff},0,{std})"
    dst = nm()
    dstoff = stdoff + 3600
    if pos < len(s) and s[pos] != ",":
        dstoff = -hms()
    def day():
        nonlocal pos
        if s[pos] == "M":
            m = re.match(r"M(\d+)\.(\d+)\.(\d+)", s[pos:]); pos += m.end(); d = f"M{m.group(1)}.{m.group(2)}.{m.group(3)}"
        elif s[pos] == "J":
            m = re.match(r"J(\d+)", s[pos:]); pos += m.end(); d = f"J{m.group(1)}"
        else:
            m = re.match(r"(\d+)", s[pos:]); pos += m.end(); d = m.group(1)
        t = 7200
        if pos < len(s) and s[pos] == "/":
            pos += 1; t = hms()
        return f"{d}/{t}"
    assert s[pos] == ","; pos += 1
    st = day(); assert s[pos] == ","; pos += 1
    en = day()
    return f"alt(std=({stdoff},0,{std}),dst=({dstoff},1,{dst}),start={st},end={en})"

def main():
    limit = int(sys.argv[1]) if len(sys.argv) > 1 else 10**9
    keys = sorted(k for k in zoneinfo.available_timezones() if not k.startswith(("right/", "posix/")))[:limit]
    ops, meta, lops, lmeta = [], [], [], []
    utc = datetime.timezone.utc
    lo, hi = datetime.datetime(1800, 1, 1, tzinfo=utc), datetime.datetime(2400, 1, 1, tzinfo=utc)
    epoch = datetime.datetime(1970, 1, 1, tzinfo=utc)
    grid = [int((lo - epoch).total_seconds()) + k * 15778463 for k in range(0, 1200)]   # every ~half year
    for k in keys:
        path = os.path.join(ZI, k)
        try:
            b = open(path, "rb").read()
            times, idx, types, leap, footer = parse_tzif(b)
            if leap: continue
            rule = parse_posix(footer) if footer else "none"
        except Exception as e:
            continue
        tys = ";".join(f"{o},{d},{n if n else '-'}" for (o, d, n) in types)
        trs = ",".join(f"{t}:{i}" for t, i in zip(times, idx))
        qs = sorted(set([t + d for t in times for d in (-1, 0, 1)] + grid))
        qs = [q for q in qs if -5364662400 < q < 13569465600]       # 1800..2400
        ops.append(f"tzl.at types=[{tys}] trans=[{trs}] leaps=[] rule={rule} " + ",".join(map(str, qs)))
        meta.append((k, qs))
        # wall-clock queries around every table transition: both images of the transition instant
        offs = sorted(set(o for (o, _, _) in types))
        lq = sorted(set(t + o + d for t in times for o in offs for d in (-3601, -2, -1, 0, 1, 2, 3601)))
        lq = [q for q in lq if -5364662400 + 90000 < q < 13569465600 - 90000]
        if lq:
            lops.append(f"tzl.loc types=[{tys}] trans=[{trs}] leaps=[] rule={rule} " + ",".join(map(str, lq)))
            lmeta.append((k, lq, times, idx, types))
    out = subprocess.run([DRV], input="\n".join(ops) + "\n", capture_output=True, text=True).stdout.split("\n")
    bad = n = 0
    for (k, qs), line in zip(meta, out):
        z = zoneinfo.ZoneInfo(k)
        ans = line.split(",")
        if len(ans) != len(qs):
            bad += 1; print("driver answer malformed for", k, line[:80]); continue
        for q, a in zip(qs, ans):
            dt = epoch + datetime.timedelta(seconds=q)
            want = int(dt.astimezone(z).utcoffset().total_seconds())
            n += 1
            got = a.split(":")[0]
            if got != f"o{want}":
                bad += 1
                if bad < 10: print("MISMATCH", k, q, "spec/model:", a, "zoneinfo:", want)
    # ---- wall-clock classification (gaps, folds, order of the two candidates) vs zoneinfo's `fold` ----
    lout = subprocess.run([DRV], input="\n".join(lops) + "\n", capture_output=True, text=True).stdout.split("\n")
    nl = skipped = 0
    naive_epoch = datetime.datetime(1970, 1, 1)
    for (k, lq, times, idx, types), line in zip(lmeta, lout):
        z = zoneinfo.ZoneInfo(k)
        ans = line.split(",")
        if len(ans) != len(lq):
            bad += 1; print("driver answer malformed for", k, line[:80]); continue
        # the single boundary second that ends a skipped/repeated interval (T + previous offset) is excepted
        prev = [types[0][0]] + [types[i][0] for i in idx[:-1]]
        excepted = set(t + po for t, po in zip(times, prev))
        for q, a in zip(lq, ans):
            if q in excepted:
                skipped += 1; continue
            w = naive_epoch + datetime.timedelta(seconds=q)
            cands = []
            for fold in (0, 1):
                o = w.replace(tzinfo=z, fold=fold).utcoffset()
                t = (w - o).replace(tzinfo=utc)
                back = t.astimezone(z)
                if back.replace(tzinfo=None) == w:
                    cands.append((int((t - epoch).total_seconds()), int(o.total_seconds())))
            cands = sorted(set(cands))
            want = "n" if not cands else (f"s{cands[0][1]}" if len(cands) == 1 else f"a{cands[0][1]}/{cands[1][1]}")
            nl += 1
            if a != want:
                bad += 1
                if bad < 12: print("WALL-CLOCK MISMATCH", k, q, "model:", a, "zoneinfo:", want)
    print(f"zone spec validation: {len(meta)} zones, {n} instants and {nl} wall-clock times vs CPython zoneinfo ({skipped} excepted boundary seconds skipped), mismatches={bad}")
    sys.exit(1 if bad else 0)
main()
