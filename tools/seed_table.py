#!/usr/bin/env python3
"""Regenerate seeded/TABLE.md from seeded/*/meta.json."""
import json, glob, os
V = os.path.dirname(os.path.dirname(os.path.abspath(__file__)))
rows = []
for m in sorted(glob.glob(os.path.join(V, "seeded", "*", "meta.json"))):
    d = json.load(open(m)); tag = os.path.basename(os.path.dirname(m))
    runs = d.get("checks_run", [])
    def verdict(r):
        if not r["caught"]:
            return "MISSED"
        # runs recorded before the source pins existed always had a failing input or a broken data theorem
        return "caught" if r.get("with_failing_input", True) else "caught (source pin / theorem only, no failing input)"
    caught = ", ".join(f"{r['check'].split()[1]}:{verdict(r)}" for r in runs) or "(not yet run)"
    first = ""
    for r in runs:
        for l in r.get("output", []):
            if "failing input" in l or "no longer checks" in l:
                first = l.replace("[check] ", "")[:160]; break
        if first: break
    rows.append(f"| {tag} | {d.get('breaks_property', d.get('property'))} | {d.get('summary','')[:110]} | {caught} | {first} |")
open(os.path.join(V, "seeded", "TABLE.md"), "w").write("| seed | property | change | checks | first evidence |\n|---|---|---|---|---|\n" + "\n".join(rows) + "\n")
print(len(rows), "seeds")
