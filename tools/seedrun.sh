#!/bin/sh
# usage: seedrun.sh <dir containing patch.diff> <property id> [tier]
# applies the seeded change to /repo, runs the check, and undoes the change straight afterwards
d="$1"; p="$2"; t="${3:-quick}"
git -C /repo diff --quiet || { echo "/repo not clean"; exit 2; }
git -C /repo apply "$d/patch.diff" || { echo "patch does not apply"; exit 2; }
/verif/check "$p" --tier "$t" > /tmp/seedrun.$$.log 2>&1; rc=$?
git -C /repo checkout -- .
git -C /verif checkout -- evidence lean/Chrono/Extracted 2>/dev/null
grep -E "VIOLATION|failing input|no longer checks|-> ok|-> VIOLATION" /tmp/seedrun.$$.log | head -8
rm -f /tmp/seedrun.$$.log
echo "rc=$rc"
