#!/usr/bin/env python3
"""Validate the Lean calendar SPECIFICATION (Spec/Calendar.lean, through the driver's `spec.day` op)
against two references that share no code with chrono or with the model: Python's `datetime.date`
(proleptic Gregorian, years 1..9999: every day) and GNU `date -u -d` (a sample; years < 1 are not
supported by either, so the other years are carried by theorem `Chrono.Props.C01.spec_coherent`: for
every integer year the closed form advances by the leap rule's year length and by 146097 per 400 years,
and the cumulative month table is the running sum of the month lengths).
Since 2026-09-30 also the ISO 8601 week-date SPECIFICATION (Spec/IsoSpec.lean and `isoThursday`, ops
`spec.iso` / `spec.isoday`): every day of 1..9999 against `date.isocalendar()` (accessor side: Thursday
rule) and back through `isoDayNum` / `isoWeekExists` (constructor side), and for every year the
existence of weeks 0, 1, 52, 53, 54 and the week count against `date.fromisocalendar()`.
Exit 0 if every compared day agrees. This validates the spec; it is not a proof obligation."""
import datetime, os, subprocess, sys, random
V = os.path.dirname(os.path.dirname(os.path.abspath(__file__)))
DRV = os.path.join(V, "lean", ".lake", "build", "bin", "chrono_model")
step = int(sys.argv[1]) if len(sys.argv) > 1 else 1
ops, exp = [], []
_weeks = {}
def has_week(y, w):
    """does ISO year y have a week w, according to Python's fromisocalendar (Thursday of the week)"""
    if w < 1:
        return False
    try:
        return datetime.date.fromisocalendar(y, w, 4).isocalendar()[:2] == (y, w)
    except ValueError:
        return False
def weeks_in(y):
    if y not in _weeks:
        _weeks[y] = 53 if has_week(y, 53) else 52
    return _weeks[y]
# per year: which of the weeks 0, 1, 52, 53, 54 exist, and the number of weeks
if step == 1:
    for y in range(1, 10000):
        for w in (0, 1, 52, 53, 54):
            ops.append(f"spec.isoday {y} {w} 0")
            mon1 = datetime.date.fromisocalendar(y, 1, 4).toordinal() - 3
            exp.append(f"{mon1 + 7 * (w - 1)} {1 if has_week(y, w) else 0} {weeks_in(y)}")
d = datetime.date(1, 1, 1)
end = datetime.date(9999, 12, 31)
one = datetime.timedelta(days=step)
while d <= end:
    ops.append(f"spec.day {d.year} {d.month} {d.day}")
    y = d.year
    leap = (y % 4 == 0 and (y % 100 != 0 or y % 400 == 0))
    exp.append(f"{d.toordinal()} {d.weekday()} 1 {1 if leap else 0} {366 if leap else 365}")
    # ISO week date of the day (accessor side) and the way back (constructor side)
    iy, iw, iwd = d.isocalendar()
    if 1 <= iy <= 9999:
        ops.append(f"spec.iso {d.toordinal()}")
        exp.append(f"{iy} {iw} {iwd - 1} {d.toordinal()} 1 {weeks_in(iy)}")
        ops.append(f"spec.isoday {iy} {iw} {iwd - 1}")
        exp.append(f"{d.toordinal()} 1 {weeks_in(iy)}")
    try:
        d = d + one
    except OverflowError:
        break
# invalid tuples
for y, m, dd in [(2023, 2, 29), (2024, 2, 30), (1900, 2, 29), (2000, 2, 30), (2021, 4, 31), (2021, 13, 1), (2021, 0, 1), (2021, 1, 0), (2021, 1, 32)]:
    ops.append(f"spec.day {y} {m} {dd}"); exp.append(None)
out = subprocess.run([DRV], input="\n".join(ops) + "\n", capture_output=True, text=True).stdout.split("\n")
bad = 0
for o, e, g in zip(ops, exp, out):
    if e is None:
        if len(g.split()) < 3 or g.split()[2] != "0":
            bad += 1; print("spec accepts invalid", o, g)
    elif g != e:
        bad += 1
        if bad < 10: print("MISMATCH", o, "spec:", g, "python:", e)
# GNU date sample
rnd = random.Random(1)
n_gnu = 0
for _ in range(300):
    y, m, dd = rnd.randint(1, 9999), rnd.randint(1, 12), rnd.randint(1, 28)
    r = subprocess.run(["date", "-u", "-d", f"{y:04d}-{m:02d}-{dd:02d}", "+%s %u"], capture_output=True, text=True)
    if r.returncode != 0:
        continue
    secs, u = r.stdout.split()
    g = subprocess.run([DRV], input=f"spec.day {y} {m} {dd}\n", capture_output=True, text=True).stdout.split()
    n_gnu += 1
    if (int(g[0]) - 719163) * 86400 != int(secs) or int(g[1]) != int(u) - 1:
        bad += 1; print("GNU date MISMATCH", y, m, dd, g, secs, u)
n_iso = sum(1 for o in ops if o.startswith("spec.iso"))
print(f"calendar spec validation: {len(ops) - n_iso} days vs python datetime, {n_iso} ISO week-date lines vs python isocalendar/fromisocalendar, {n_gnu} vs GNU date, mismatches={bad}")
sys.exit(1 if bad else 0)
