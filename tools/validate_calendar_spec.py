#!/usr/bin/env python3
"""Validate the Lean calendar SPECIFICATION (Spec/Calendar.lean, through the driver's `spec.day` op)
against two references that share no code with chrono or with the model: Python's `datetime.date`
(proleptic Gregorian, years 1..9999: every day) and GNU `date -u -d` (a sample incl. years < 1 is not
supported by either, so the negative range is covered by the 400-year periodicity theorem only).
Exit 0 if every compared day agrees. This validates the spec; it is not a proof obligation."""
import datetime, os, subprocess, sys, random
V = os.path.dirname(os.path.dirname(os.path.abspath(__file__)))
DRV = os.path.join(V, "lean", ".lake", "build", "bin", "chrono_model")
step = int(sys.argv[1]) if len(sys.argv) > 1 else 1
ops, exp = [], []
d = datetime.date(1, 1, 1)
end = datetime.date(9999, 12, 31)
one = datetime.timedelta(days=step)
while d <= end:
    ops.append(f"spec.day {d.year} {d.month} {d.day}")
    y = d.year
    leap = (y % 4 == 0 and (y % 100 != 0 or y % 400 == 0))
    exp.append(f"{d.toordinal()} {d.weekday()} 1 {1 if leap else 0} {366 if leap else 365}")
    try:
        d = d + one
    except OverflowError:
        break
# invalid tuples
for y, m, dd in [(2023, 2, 29), (2024, 2, 30), (1900, 2, 29), (2000, 2, 30), (2021, 4, 31), (2021, 13, 1), (2021, 0, 1), (2021, 1, 0), (2021, 1, 32)]:
    ops.append(f"spec.day {y} {m} {dd}"); exp.append(None)
out = subprocess.run([DRV], input="\n".join(ops) + "\n", capture_output=True, text=True).stdout.split("\n")
bad = 0
for o, e, g in zip(ops, exp, out):
    if e is None:
        if g.split()[2] != "0":
            bad += 1; print("spec accepts invalid", o, g)
    elif g != e:
        bad += 1
        if bad < 10: print("MISMATCH", o, "spec:", g, "python:", e)
# GNU date sample
rnd = random.Random(1)
n_gnu = 0
for _ in range(300):
    y, m, dd = rnd.randint(1, 9999), rnd.randint(1, 12), rnd.randint(1, 28)
    r = subprocess.run(["date", "-u", "-d", f"{y:04d}-{m:02d}-{dd:02d}", "+%s %u"], capture_output=True, text=True)
    if r.returncode != 0:
        continue
    secs, u = r.stdout.split()
    g = subprocess.run([DRV], input=f"spec.day {y} {m} {dd}\n", capture_output=True, text=True).stdout.split()
    n_gnu += 1
    if (int(g[0]) - 719163) * 86400 != int(secs) or int(g[1]) != int(u) - 1:
        bad += 1; print("GNU date MISMATCH", y, m, dd, g, secs, u)
print(f"calendar spec validation: {len(ops)} days vs python datetime, {n_gnu} vs GNU date, mismatches={bad}")
sys.exit(1 if bad else 0)
