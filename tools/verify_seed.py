#!/usr/bin/env python3
"""Confirm a seeded change independently: in a scratch worktree of /repo HEAD the demonstration
passes without the patch, fails with it, and the existing suite still passes with it.
usage: verify_seed.py /tmp/seedout/C19/a  [more dirs]   -> writes <dir>/verified.json"""
import json, os, subprocess, sys, shutil
ENV = dict(os.environ, CARGO_NET_OFFLINE="true")
def sh(cmd, cwd):
    p = subprocess.run(cmd, cwd=cwd, shell=True, stdout=subprocess.PIPE, stderr=subprocess.STDOUT, text=True, env=ENV)
    return p.returncode, p.stdout
def main(d):
    d = os.path.abspath(d)
    meta = json.load(open(os.path.join(d, "meta.json")))
    tag = ("R5-" if "seedout5" in d else "R4-" if "seedout4" in d else "R3-" if "seedout3" in d else "R2-" if "seedout2" in d else "") + os.path.basename(os.path.dirname(d)) + "-" + os.path.basename(d)
    wt = f"/tmp/vs/{tag}"
    os.makedirs("/tmp/vs", exist_ok=True)
    sh(f"git -C /repo worktree remove --force {wt}", "/")
    rc, out = sh(f"git -C /repo worktree add --detach {wt} HEAD", "/")
    res = {"worktree_head": sh("git rev-parse HEAD", wt)[1].strip()}
    try:
        shutil.copy(os.path.join(d, "seed_demo.rs"), os.path.join(wt, "tests", "seed_demo.rs"))
        demo = meta.get("demo_cmd") or "cargo test --offline --test seed_demo"
        if "--offline" not in demo:
            demo += " --offline"
        demo = demo.split("&&")[-1].strip()
        rc0, out0 = sh(demo, wt)
        res["demo_without_patch_rc"] = rc0
        rca, outa = sh(f"git apply {os.path.join(d, 'patch.diff')}", wt)
        res["apply_rc"] = rca
        if rca != 0:
            res["apply_out"] = outa[-500:]
        rc1, out1 = sh(demo, wt)
        res["demo_with_patch_rc"] = rc1
        os.remove(os.path.join(wt, "tests", "seed_demo.rs"))
        rc2, out2 = sh("cargo test --workspace --no-fail-fast --offline 2>&1 | grep -E '^test result|FAILED|failed' | head -20", wt)
        res["suite_summary"] = out2.strip().split("\n")
        res["suite_ok"] = all("0 failed" in l for l in res["suite_summary"] if l.startswith("test result")) and not any("FAILED" in l for l in res["suite_summary"])
        res["confirmed"] = rc0 == 0 and rca == 0 and rc1 != 0 and res["suite_ok"]
        if not res["confirmed"]:
            res["demo_without_tail"] = out0[-600:]
            res["demo_with_tail"] = out1[-600:]
    finally:
        sh(f"git -C /repo worktree remove --force {wt}", "/")
    json.dump(res, open(os.path.join(d, "verified.json"), "w"), indent=1)
    print(tag, "CONFIRMED" if res.get("confirmed") else "NOT CONFIRMED", res.get("suite_summary", [])[:1])
for d in sys.argv[1:]:
    main(d)
