#!/usr/bin/env python3
"""Write lean/Chrono/Pins/Cnn.lean: one theorem per anchored item of property Cnn stating what the
decision tokens of that item (lean/Chrono/Extracted/Anchors.lean, regenerated from /repo on every
check by tools/extractors/anchors.py) were when the model was validated against the source.

Run by hand (never by a check) after the model of a property has been (re)validated against the
current source: `python3 tools/pin_anchors.py` (all) or `python3 tools/pin_anchors.py C05 C16`.
"""
import json, os, re, subprocess, sys
V = os.path.dirname(os.path.dirname(os.path.abspath(__file__)))
subprocess.run([sys.executable, os.path.join(V, "tools", "extract.py")], check=True, stdout=subprocess.DEVNULL)
src = open(os.path.join(V, "lean", "Chrono", "Extracted", "Anchors.lean")).read()
commit = subprocess.run(["git", "-C", "/repo", "rev-parse", "--short", "HEAD"], capture_output=True, text=True).stdout.strip()
dirty = subprocess.run(["git", "-C", "/repo", "status", "--porcelain", "--untracked-files=no"], capture_output=True, text=True).stdout.strip()
if dirty:
    sys.exit("/repo has uncommitted changes; pin only against a committed tree")
items = re.findall(r"/-- (.*?) -/\ndef (C\d\d)_(\w+) : List String := (\[.*\])\n", src)
want = set(sys.argv[1:])
os.makedirs(os.path.join(V, "lean", "Chrono", "Pins"), exist_ok=True)
by = {}
for label, pid, ident, lst in items:
    by.setdefault(pid, []).append((label, ident, lst))
for pid, its in sorted(by.items()):
    if want and pid not in want:
        continue
    out = [f"/-\n  PINS of property {pid}: the decision tokens of every item the property is anchored in",
           f"  (properties.jsonl `anchors` + tools/anchor_extra.json), as they were in /repo at {commit} when the",
           "  model was validated against the source.  Written by tools/pin_anchors.py; the right-hand sides are",
           "  compared by the kernel with lean/Chrono/Extracted/Anchors.lean, which tools/extractors/anchors.py",
           "  regenerates from /repo's working tree on every check.  A theorem that fails here means: anchored",
           "  code changed; the hand-written model may no longer mirror it.\n-/",
           "import Chrono.Extracted.Anchors", f"namespace Chrono.Pins.{pid}", "open Chrono.Extracted.Anchors", ""]
    for label, ident, lst in its:
        out.append(f"/-- {label} -/")
        out.append(f"theorem {ident} : {pid}_{ident} =\n    {lst} := by decide +kernel")
        out.append("")
    out.append(f"end Chrono.Pins.{pid}")
    with open(os.path.join(V, "lean", "Chrono", "Pins", pid + ".lean"), "w") as f:
        f.write("\n".join(out) + "\n")
    print(pid, len(its), "pins")
