#!/usr/bin/env python3
"""Generate MANIFEST.json from props/*.json (claimed properties) and props/not_applicable.json."""
import json, os, glob
V = os.path.dirname(os.path.dirname(os.path.abspath(__file__)))
ids = [json.loads(l)["id"] for l in open(os.path.join(V, "properties.jsonl"))]
checks = []
claimed = set()
for p in sorted(glob.glob(os.path.join(V, "props", "C*.json"))):
    c = json.load(open(p))
    pid = c["id"]
    claimed.add(pid)
    checks.append({
        "property_id": pid,
        "quick_cmd": f"./check {pid} --tier quick",
        "thorough_cmd": f"./check {pid} --tier thorough",
        "evidence_file": f"/verif/evidence/{pid}.json",
        "replay_cmd_template": f"./check {pid} --replay {{path}}",
        "engine": "lean-proof+correspondence",
        "level_claimed": {"category": "proof", "text": c["level_text"], "design_ref": c.get("design_ref", "DESIGN.md §8")},
        "level_note": c["level_note"],
        "technique": c["technique"],
    })
na_path = os.path.join(V, "props", "not_applicable.json")
na = json.load(open(na_path)) if os.path.exists(na_path) else {}
not_app = []
for i in ids:
    if i not in claimed:
        not_app.append({"property_id": i, "reason": na.get(i, "not yet claimed: model and theorems for this property are still being built (see DESIGN.md §10 order of work)")})
m = {
    "version": 1,
    "setup_cmd": "cd /verif && ./setup.sh",
    "hooks": {
        "guard": "--cfg chrono_verif",
        "enable": "harness/.cargo/config.toml sets rustflags = [\"--cfg\", \"chrono_verif\", \"--check-cfg\", \"cfg(chrono_verif)\"] for the harness build that links /repo as a path dependency",
        "baseline_off_cmd": "cd /repo && cargo test --workspace --no-fail-fast --offline",
        "source_commits": json.load(open(os.path.join(V, "props", "hooks.json")))["source_commits"] if os.path.exists(os.path.join(V, "props", "hooks.json")) else [],
        "add_only": True,
    },
    "engines": [{
        "name": "lean-proof+correspondence", "path": "/verif/check",
        "serves_properties": sorted(claimed),
        "kind_free_text": "Lean 4 theorems about a hand-written executable model (lean/Chrono), data tables re-extracted from /repo on every run (tools/extract.py), model tied to the implementation by a differential Rust harness (harness/) through a compiled line-protocol driver (lean/Main.lean)",
    }],
    "checks": checks,
    "notes": "See DESIGN.md. Known findings and repaired defects: known_findings.json.",
    "not_applicable": not_app,
}
json.dump(m, open(os.path.join(V, "MANIFEST.json"), "w"), indent=1)
print(f"claimed {len(checks)}: {sorted(claimed)}; not claimed {len(not_app)}")
